"""Common verdict / evidence / known-finding / worker plumbing for all checks.

Exit codes: 0 held, 1 VIOLATION (unknown mechanism), 2 INCONCLUSIVE.
"""
import hashlib
import json
import os
import random
import subprocess
import sys
import tempfile
import time

VERIF = os.path.dirname(os.path.dirname(os.path.abspath(__file__)))
REPO = os.environ.get("PV_REPO", "/repo")
EVIDENCE_DIR = os.environ.get("PV_EVIDENCE_DIR") or os.path.join(VERIF, "evidence")
REPLAY_DIR = os.environ.get("PV_REPLAY_DIR") or os.path.join(VERIF, "replays")
KNOWN_FILE = os.path.join(VERIF, "KNOWN_FINDINGS.json")
PY = "/venv/bin/python"


def assert_repo_sources():
    """pydcop must be imported from /repo's working tree (never a copy)."""
    if REPO not in sys.path:
        sys.path.insert(0, REPO)
    import pydcop

    f = os.path.realpath(pydcop.__file__)
    if not f.startswith(os.path.realpath(REPO) + os.sep):
        print("INCONCLUSIVE reason=pydcop imported from %s, not %s" % (f, REPO))
        sys.exit(2)


def stable_hash(obj) -> str:
    s = json.dumps(obj, sort_keys=True, default=repr)
    return hashlib.sha1(s.encode()).hexdigest()[:16]


def jsonable(o, depth=0):
    """Best-effort conversion to something json.dump accepts (for samples / replays)."""
    if depth > 12:
        return repr(o)
    if o is None or isinstance(o, (bool, int, str)):
        return o
    if isinstance(o, float):
        if o != o:
            return "nan"
        if o in (float("inf"), float("-inf")):
            return "inf" if o > 0 else "-inf"
        return o
    if isinstance(o, dict):
        return {str(k): jsonable(v, depth + 1) for k, v in o.items()}
    if isinstance(o, (list, tuple, set, frozenset)):
        seq = list(o)
        if isinstance(o, (set, frozenset)):
            seq = sorted(seq, key=repr)
        return [jsonable(v, depth + 1) for v in seq]
    try:
        import numpy as np

        if isinstance(o, np.generic):
            return jsonable(o.item(), depth + 1)
        if isinstance(o, np.ndarray):
            return jsonable(o.tolist(), depth + 1)
    except Exception:
        pass
    return repr(o)


def load_known():
    try:
        with open(KNOWN_FILE) as f:
            data = json.load(f)
    except FileNotFoundError:
        return {}
    out = {}
    for e in data.get("findings", []):
        out[(e["property"], e["key"])] = e
    return out


class Check:
    """Accumulates what a check run observed and turns it into verdict + evidence."""

    def __init__(self, pid, tier, seed, level="exploration"):
        self.pid = pid
        self.tier = tier
        self.seed = seed
        self.level = level
        self.t0 = time.time()
        self.evaluations = 0
        self.nontrivial = set()
        self.samples = []
        self.max_samples = 4
        self.counters = {}
        self.violations = []  # (key, witness, replay_path)
        self.known_seen = {}
        self.inconclusive = []
        self.rule = ""
        self.assumptions = []
        self.extra = {}
        self.known = load_known()
        self._viol_keys = {}

    # -- observation bookkeeping -------------------------------------------------
    def count(self, name, n=1):
        self.counters[name] = self.counters.get(name, 0) + n

    def merge_counters(self, d):
        for k, v in (d or {}).items():
            if isinstance(v, (int, float)):
                self.counters[k] = self.counters.get(k, 0) + v

    def case(self, sig=None, nontrivial=False, sample=None):
        self.evaluations += 1
        if nontrivial and sig is not None:
            self.nontrivial.add(sig)
        if sample is not None and len(self.samples) < self.max_samples:
            self.samples.append(jsonable(sample))

    def add_nontrivial(self, sigs):
        self.nontrivial.update(sigs)

    def violation(self, key, what, witness):
        """key: mechanism key (stable), what: one line, witness: json-able replay payload."""
        if (self.pid, key) in self.known:
            ks = self.known_seen.setdefault(key, {"count": 0, "what": self.known[(self.pid, key)]["what"]})
            ks["count"] += 1
            if "example" not in ks:
                ks["example"] = jsonable(what)
            return False
        n = self._viol_keys.get(key, 0)
        self._viol_keys[key] = n + 1
        if n >= 3:  # keep at most 3 replay files per mechanism
            self.violations.append((key, what, None))
            return True
        payload = {"property": self.pid, "key": key, "what": what, "tier": self.tier, "seed": self.seed,
                   "witness": jsonable(witness)}
        d = os.path.join(REPLAY_DIR, self.pid)
        os.makedirs(d, exist_ok=True)
        path = os.path.join(d, stable_hash(payload) + ".json")
        with open(path, "w") as f:
            json.dump(payload, f, indent=1, sort_keys=True)
        self.violations.append((key, what, path))
        return True

    def inconclusive_if(self, cond, reason):
        if cond:
            self.inconclusive.append(reason)

    # -- end of run ----------------------------------------------------------------
    def finish(self):
        wall = time.time() - self.t0
        cov = {
            "evaluations": int(self.evaluations),
            "distinct_nontrivial": len(self.nontrivial),
            "rule": self.rule,
            "samples": self.samples or [],
            "monitor_counters": {k: self.counters[k] for k in sorted(self.counters)},
            "known_findings_seen": self.known_seen,
            "inconclusive_reasons": self.inconclusive,
            "violation_keys": self._viol_keys,
        }
        cov.update(jsonable(self.extra))
        ev = {
            "property_id": self.pid,
            "tier": self.tier,
            "seed": int(self.seed),
            "level": self.level,
            "coverage": cov,
            "assumptions": self.assumptions,
            "wall_s": round(wall, 2),
            "violations": len(self.violations),
        }
        os.makedirs(EVIDENCE_DIR, exist_ok=True)
        tmp = os.path.join(EVIDENCE_DIR, ".%s.json.tmp" % self.pid)
        with open(tmp, "w") as f:
            json.dump(ev, f, indent=1, sort_keys=True)
        os.replace(tmp, os.path.join(EVIDENCE_DIR, "%s.json" % self.pid))

        for key, ks in sorted(self.known_seen.items()):
            print("KNOWN-FINDING: property=%s %s [%s] (seen %d times this run)" % (self.pid, ks["what"], key, ks["count"]))
        print("%s %s seed=%s: evaluations=%d distinct_nontrivial=%d wall=%.1fs counters=%s" % (
            self.pid, self.tier, self.seed, self.evaluations, len(self.nontrivial), wall,
            json.dumps({k: self.counters[k] for k in sorted(self.counters)})))
        if self.violations:
            seen = set()
            for key, what, path in self.violations:
                if path is None or path in seen:
                    continue
                seen.add(path)
                print("  violated [%s]: %s" % (key, str(what)[:300]))
                print("VIOLATION property=%s replay=%s" % (self.pid, path))
            return 1
        if self.inconclusive:
            for r in self.inconclusive:
                print("INCONCLUSIVE property=%s reason=%s" % (self.pid, r))
            return 2
        print("HELD property=%s on everything explored" % self.pid)
        return 0


# -- worker subprocesses ------------------------------------------------------------

def run_workers(module, jobs, nproc=None, timeout=600, hashseeds=None, env_extra=None):
    """Run `python -m pv.worker <module>` once per job (job = json-able dict) with bounded
    parallelism. Returns list of (job, result-dict or None, error-string or None)."""
    nproc = nproc or min(16, os.cpu_count() or 4)
    pending = list(enumerate(jobs))
    running = []
    results = [None] * len(jobs)
    env_base = dict(os.environ)
    env_base["PYTHONPATH"] = VERIF + os.pathsep + REPO
    env_base.setdefault("PYTHONHASHSEED", "0")
    env_base["PYTHONWARNINGS"] = "ignore"
    if env_extra:
        env_base.update(env_extra)
    while pending or running:
        while pending and len(running) < nproc:
            idx, job = pending.pop(0)
            env = dict(env_base)
            if hashseeds is not None:
                env["PYTHONHASHSEED"] = str(hashseeds[idx % len(hashseeds)])
            if "hashseed" in job:
                env["PYTHONHASHSEED"] = str(job["hashseed"])
            # stdout/stderr go to temporary files: a chatty child (logging) must never block on a full pipe
            fout = tempfile.TemporaryFile(mode="w+")
            ferr = tempfile.TemporaryFile(mode="w+")
            p = subprocess.Popen([PY, "-m", "pv.worker", module], stdin=subprocess.PIPE, stdout=fout,
                                 stderr=ferr, env=env, cwd=job.get("cwd", VERIF), text=True)
            p._pv_files = (fout, ferr)
            try:
                p.stdin.write(json.dumps(job))
                p.stdin.close()
            except BrokenPipeError:
                pass
            running.append((idx, job, p, time.time()))
        still = []
        for idx, job, p, t0 in running:
            rc = p.poll()
            if rc is None:
                if time.time() - t0 > timeout:
                    p.kill()
                    p.wait()
                    for f in p._pv_files:
                        f.close()
                    results[idx] = (job, None, "worker timeout after %ss" % timeout)
                else:
                    still.append((idx, job, p, t0))
                continue
            fout, ferr = p._pv_files
            fout.seek(0)
            out = fout.read()
            ferr.seek(0, 2)
            size = ferr.tell()
            ferr.seek(max(0, size - 4000))
            err = ferr.read()
            fout.close()
            ferr.close()
            res = None
            for line in reversed(out.splitlines()):
                if line.startswith("PVRESULT "):
                    try:
                        res = json.loads(line[len("PVRESULT "):])
                    except Exception as e:  # pragma: no cover
                        err += "\nbad result json: %r" % e
                    break
            if res is None:
                results[idx] = (job, None, "worker rc=%s no result; stderr tail: %s" % (rc, err[-1500:]))
            else:
                results[idx] = (job, res, None)
        running = still
        if running:
            time.sleep(0.02)
    return results


def tier_seed(argv):
    tier = os.environ.get("VERIF_TIER") or (argv[0] if argv else "quick")
    if argv and argv[0] in ("quick", "thorough"):
        tier = argv[0]
    seed = int(os.environ.get("VERIF_SEED", "0") or 0)
    return tier, seed


def rng_for(*parts):
    return random.Random("/".join(str(p) for p in parts))


def run_chunked(chk, module, total, nchunks=None, job_extra=None, timeout=900, nproc=None, hashseeds=None):
    """Split `total` case indexes into chunks, run `pv.checks.<module>.worker` on each in a
    subprocess, merge into chk.  Worker result keys: evaluations, sigs, counters, violations
    [{key, what, witness}], samples, extra (dict of lists/sets to union or numbers to add)."""
    nproc = nproc or min(16, os.cpu_count() or 4)
    nchunks = nchunks or nproc
    nchunks = max(1, min(nchunks, total))
    jobs = []
    per = (total + nchunks - 1) // nchunks
    for i in range(nchunks):
        lo, hi = i * per, min(total, (i + 1) * per)
        if lo >= hi:
            break
        j = {"seed": chk.seed, "tier": chk.tier, "lo": lo, "hi": hi}
        j.update(job_extra or {})
        jobs.append(j)
    results = run_workers(module, jobs, nproc=nproc, timeout=timeout, hashseeds=hashseeds)
    merge_results(chk, results)
    return results


def merge_results(chk, results):
    for job, res, err in results:
        if err is not None or res is None:
            chk.inconclusive.append("worker failed (%s): %s" % ({k: job[k] for k in job if k in ("lo", "hi", "hashseed", "name")}, err))
            continue
        if "harness_error" in res:
            chk.inconclusive.append("harness error in worker: %s | %s" % (res["harness_error"], res.get("trace", "")[-600:]))
            continue
        chk.evaluations += int(res.get("evaluations", 0))
        chk.add_nontrivial(res.get("sigs", []))
        chk.merge_counters(res.get("counters"))
        for s in res.get("samples", []):
            if len(chk.samples) < chk.max_samples:
                chk.samples.append(s)
        for v in res.get("violations", []):
            if v["key"].startswith("harness:"):  # a failure of the harness itself is never a verdict
                chk.inconclusive.append("%s %s" % (v["key"], str(v["what"])[-300:]))
                continue
            chk.violation(v["key"], v["what"], v["witness"])
        for k, v in (res.get("extra") or {}).items():
            if isinstance(v, list):
                cur = chk.extra.setdefault(k, [])
                for x in v:
                    if x not in cur:
                        cur.append(x)
            elif isinstance(v, dict):
                cur = chk.extra.setdefault(k, {})
                for kk, vv in v.items():
                    cur[kk] = cur.get(kk, 0) + vv if isinstance(vv, (int, float)) else vv
            elif isinstance(v, (int, float)):
                chk.extra[k] = chk.extra.get(k, 0) + v


class WorkerResult(dict):
    """Accumulator used inside workers."""

    def __init__(self):
        super().__init__(evaluations=0, sigs=[], counters={}, violations=[], samples=[], extra={})
        self._sigs = set()

    def count(self, name, n=1):
        self["counters"][name] = self["counters"].get(name, 0) + n

    def case(self, sig=None, nontrivial=False, sample=None, max_samples=2):
        self["evaluations"] += 1
        if nontrivial and sig is not None and sig not in self._sigs:
            self._sigs.add(sig)
            self["sigs"].append(sig)
        if sample is not None and len(self["samples"]) < max_samples:
            self["samples"].append(jsonable(sample))

    def violation(self, key, what, witness, max_per_key=3):
        n = sum(1 for v in self["violations"] if v["key"] == key)
        self.count("violations_" + key)
        if n < max_per_key:
            self["violations"].append({"key": key, "what": what, "witness": jsonable(witness)})

    def bump(self, table, key, n=1):
        d = self["extra"].setdefault(table, {})
        d[key] = d.get(key, 0) + n

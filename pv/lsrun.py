"""Shared Engine-A runner for cycle based local search (MGM, MGM2, DSA...), with the cycle-cut monitor.

Logical cut A_k of a connected component: the value every computation of the component holds at the moment
it *enters* cycle k (its k-th new_cycle()).  MGM/MGM2 take the decision of cycle k-1 and enter cycle k in
the same handler invocation, so whenever all computations of a component have the same cycle_count k (a
real instant the property talks about) the assignment held is exactly A_k; in a lock-step schedule every
A_k is such an instant.  Monitors work on A_k per component (sound for the property quantified over all
schedules/seeds/inputs: a component alone is also a DCOP).
"""
import random as _r

from pv import detsched, gen


def run_ls(case, algo, params, sched_seed, bias=None, choices=None, budget=None, cost_style="dict"):
    dcop = gen.build_dcop(case, cost_style)
    detsched.seed_algo_rngs(sched_seed)
    pool = detsched.Pool(sched_seed, choices=choices)
    try:
        comps, graph, algodef = detsched.build_computations(algo, dcop, params=params)
    except Exception as e:  # building the computations is part of what is observed
        import traceback

        pool.errors.append(("build_computation", "%s: %s" % (type(e).__name__, e), traceback.format_exc()[-2500:]))
        return {"status": "error", "pool": pool, "comps": {}, "cuts": {}, "go": set(), "accept": set(), "gains": {},
                "kinds": {}, "aligned_instants": 0, "fin_cycle": {}, "budget": 0,
                "bias": {"bias": pool.bias, "target": None, "late_until": 0}, "value_calls": []}
    rng = _r.Random(sched_seed * 7919 + 1)
    names = [c.name for c in comps]
    if bias is None:
        detsched.choose_bias(rng, pool, names)
    else:
        pool.bias, pool.bias_target, pool.late_until = bias["bias"], bias.get("target"), bias.get("late_until", 0)
    cmap = {c.name: c for c in comps}
    cuts = {n: {} for n in names}  # name -> {k: value at entering cycle k}
    go = set()  # (cycle of sender, sender, dest) for go?=True messages (MGM2)
    accept = set()
    gains = {}  # (cycle, sender) -> announced gain (MGM2 'gain' messages)
    kinds = {}
    aligned = [0]
    fin_cycle = {}
    value_calls = []

    def ob(kind, data):
        if kind == "cycle":
            n, k = data
            cuts[n][k] = cmap[n].current_value
        elif kind == "send":
            src, dest, msg, prio, mid = data
            t = msg.type
            if t == "go?" and getattr(msg, "go", False) and src in cmap:
                go.add((cmap[src].cycle_count, src, dest))
            if t == "gain" and src in cmap:
                gains[(cmap[src].cycle_count, src)] = msg.value
            if t == "answer?" and getattr(msg, "accept", False) and src in cmap:
                accept.add((cmap[src].cycle_count, src, dest, msg.gain, msg.value))
        elif kind == "deliver":
            t = data[2].type
            kinds[t] = kinds.get(t, 0) + 1
        elif kind == "finished":
            fin_cycle.setdefault(data, []).append(cmap[data].cycle_count)
        elif kind == "value":
            value_calls.append(data)
        elif kind == "step":
            ks = {c.cycle_count for c in comps}
            if len(ks) == 1:
                aligned[0] += 1

    pool.observers.append(ob)
    for c in comps:
        pool.add(c)
    nlinks = sum(len(list(c.neighbors)) for c in comps)
    k = params.get("stop_cycle", 0) or 10
    if budget is None:
        budget = 60 * k * (nlinks + len(comps) + 1) + 200
    status = pool.run(budget)
    return {"status": status, "pool": pool, "comps": cmap, "cuts": cuts, "go": go, "accept": accept, "gains": gains,
            "kinds": kinds, "aligned_instants": aligned[0], "fin_cycle": fin_cycle, "budget": budget,
            "bias": {"bias": pool.bias, "target": pool.bias_target, "late_until": pool.late_until},
            "value_calls": value_calls}


def component_cuts(case, cuts):
    """-> list of (component names, {k: assignment}) for every k where all members have a cut."""
    out = []
    for comp in gen.components(case):
        ks = None
        for n in comp:
            s = set(cuts.get(n, {}).keys())
            ks = s if ks is None else ks & s
        per = {}
        for k in sorted(ks or []):
            per[k] = {n: cuts[n][k] for n in comp}
        out.append((comp, per))
    return out


def comp_cost(case, comp, asg):
    """cost of the sub-problem induced by a connected component (constraints + own variable costs)"""
    s = 0
    cs = set(comp)
    for c in case["constraints"]:
        if c["scope"][0] in cs:
            s += gen.constraint_value(case, c, asg)
    vm = gen.var_map(case)
    for n in comp:
        s += gen.var_cost(vm[n], asg[n])
    return s


def improving_moves(case, comp, asg):
    """all (var, value, new_cost) single-variable changes that strictly improve the component cost"""
    mode = case["objective"]
    vm = gen.var_map(case)
    base = comp_cost(case, comp, asg)
    out = []
    for n in comp:
        for val in vm[n]["domain"]:
            if val == asg[n]:
                continue
            a2 = dict(asg)
            a2[n] = val
            c2 = comp_cost(case, comp, a2)
            if gen.better(c2, base, mode) and not gen.close(c2, base):
                out.append((n, val, c2))
    return base, out

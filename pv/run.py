"""Entry point: python -m pv.run <ID> [quick|thorough] [--replay file]"""
import importlib
import json
import os
import sys

from pv import common


def main(argv):
    if not argv:
        print("usage: check <ID> [quick|thorough] [--replay file]")
        return 2
    pid = argv[0].upper()
    rest = argv[1:]
    replay = None
    if "--replay" in rest:
        i = rest.index("--replay")
        replay = rest[i + 1]
        rest = rest[:i] + rest[i + 2:]
    tier, seed = common.tier_seed(rest)
    common.assert_repo_sources()
    try:
        mod = importlib.import_module("pv.checks." + pid.lower())
    except ModuleNotFoundError as e:
        print("INCONCLUSIVE property=%s reason=no check module (%s)" % (pid, e))
        return 2
    if replay:
        with open(replay) as f:
            payload = json.load(f)
        return mod.replay(payload)
    chk = common.Check(pid, tier, seed, level=getattr(mod, "LEVEL", "exploration"))
    try:
        mod.main(chk, tier, seed)
    except ImportError as e:
        import traceback
        traceback.print_exc()
        chk.inconclusive.append("module under test cannot be imported: %r" % (e,))
    return chk.finish()


if __name__ == "__main__":
    sys.exit(main(sys.argv[1:]))

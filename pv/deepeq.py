"""Harness-side deep structural comparison (never relies on the objects' own __eq__)."""
import itertools
import math


def _norm(x):
    try:
        import numpy as np

        if isinstance(x, np.generic):
            return x.item()
        if isinstance(x, np.ndarray) and x.shape == ():
            return x.item()
    except Exception:
        pass
    return x


def _is_relation(o):
    return hasattr(o, "dimensions") and hasattr(o, "get_value_for_assignment") and callable(o)


def _is_variable(o):
    return hasattr(o, "domain") and hasattr(o, "initial_value") and hasattr(o, "cost_for_val")


def deep_diff(a, b, path="", depth=0):
    """-> None if equivalent, else a string describing the first difference"""
    a, b = _norm(a), _norm(b)
    if depth > 25:
        return None
    if a is None or b is None:
        return None if a is b else "%s: %r != %r" % (path, a, b)
    if isinstance(a, bool) or isinstance(b, bool):
        return None if (type(a) == type(b) and a == b) else "%s: %r != %r" % (path, a, b)
    if isinstance(a, (int, float)) and isinstance(b, (int, float)):
        if isinstance(a, float) and isinstance(b, float) and math.isnan(a) and math.isnan(b):
            return None
        if a != b:
            return "%s: %r != %r" % (path, a, b)
        return None
    if isinstance(a, str) or isinstance(b, str):
        return None if (type(a) == type(b) and a == b) else "%s: %r (%s) != %r (%s)" % (path, a, type(a).__name__, b, type(b).__name__)
    if isinstance(a, dict) and isinstance(b, dict):
        ka, kb = sorted(a, key=repr), sorted(b, key=repr)
        if [(_norm(k), type(_norm(k)).__name__) for k in ka] != [(_norm(k), type(_norm(k)).__name__) for k in kb]:
            return "%s: dict keys %r != %r" % (path, [(_norm(k), type(_norm(k)).__name__) for k in ka][:6], [(_norm(k), type(_norm(k)).__name__) for k in kb][:6])
        for x, y in zip(ka, kb):
            d = deep_diff(a[x], b[y], "%s[%r]" % (path, x), depth + 1)
            if d:
                return d
        return None
    if isinstance(a, (list, tuple)) and isinstance(b, (list, tuple)):
        if isinstance(a, tuple) != isinstance(b, tuple):
            return "%s: %s vs %s (%r / %r)" % (path, type(a).__name__, type(b).__name__, a, b)
        if len(a) != len(b):
            return "%s: length %d != %d" % (path, len(a), len(b))
        for i, (x, y) in enumerate(zip(a, b)):
            d = deep_diff(x, y, "%s[%d]" % (path, i), depth + 1)
            if d:
                return d
        return None
    if isinstance(a, (set, frozenset)) and isinstance(b, (set, frozenset, list)):
        return deep_diff(sorted(a, key=repr), sorted(b, key=repr), path, depth + 1)
    if type(a).__name__ != type(b).__name__:
        return "%s: type %s != %s" % (path, type(a).__name__, type(b).__name__)
    if _is_variable(a):
        for attr in ("name",):
            if getattr(a, attr) != getattr(b, attr):
                return "%s.%s: %r != %r" % (path, attr, getattr(a, attr), getattr(b, attr))
        d = deep_diff(list(a.domain.values), list(b.domain.values), path + ".domain.values", depth + 1)
        if d:
            return d
        if a.domain.name != b.domain.name:
            return "%s.domain.name: %r != %r" % (path, a.domain.name, b.domain.name)
        d = deep_diff(a.initial_value, b.initial_value, path + ".initial_value", depth + 1)
        if d:
            return d
        if hasattr(a, "value") and not callable(getattr(a, "value")):
            d = deep_diff(a.value, getattr(b, "value", None), path + ".value", depth + 1)
            if d:
                return d
        if type(a).__name__ != "VariableNoisyCostFunc":
            for v in a.domain.values:
                try:
                    ca, cb = a.cost_for_val(v), b.cost_for_val(v)
                except Exception as e:
                    return "%s.cost_for_val(%r) raised %s" % (path, v, e)
                if _norm(ca) != _norm(cb):
                    return "%s.cost_for_val(%r): %r != %r" % (path, v, ca, cb)
        return None
    if _is_relation(a):
        if a.name != b.name:
            return "%s.name: %r != %r" % (path, a.name, b.name)
        da, db = list(a.dimensions), list(b.dimensions)
        if [v.name for v in da] != [v.name for v in db]:
            return "%s.dimensions: %r != %r" % (path, [v.name for v in da], [v.name for v in db])
        for x, y in zip(da, db):
            d = deep_diff(x, y, "%s.dimensions[%s]" % (path, x.name), depth + 1)
            if d:
                return d
        size = 1
        for v in da:
            size *= len(v.domain)
        if size <= 4000:
            for vals in itertools.product(*[list(v.domain.values) for v in da]):
                asg = dict(zip([v.name for v in da], vals))
                try:
                    va = a(**asg) if asg else a.get_value_for_assignment({})
                    vb = b(**asg) if asg else b.get_value_for_assignment({})
                except Exception as e:
                    return "%s(%r) raised %s: %s" % (path, asg, type(e).__name__, e)
                d = deep_diff(va, vb, "%s(%r)" % (path, asg), depth + 1)
                if d:
                    return d
        return None
    # graph links
    if hasattr(a, "nodes") and hasattr(a, "type") and not hasattr(a, "links"):
        ka = (a.type, sorted(a.nodes), getattr(a, "source", None), getattr(a, "target", None),
              getattr(a, "factor_node", None), getattr(a, "variable_node", None), getattr(a, "name", None))
        kb = (b.type, sorted(b.nodes), getattr(b, "source", None), getattr(b, "target", None),
              getattr(b, "factor_node", None), getattr(b, "variable_node", None), getattr(b, "name", None))
        return None if ka == kb else "%s: link %r != %r" % (path, ka, kb)
    # computation nodes
    if hasattr(a, "links") and hasattr(a, "neighbors") and hasattr(a, "name"):
        if a.name != b.name or a.type != b.type:
            return "%s: node %r/%r != %r/%r" % (path, a.name, a.type, b.name, b.type)
        if sorted(a.neighbors) != sorted(b.neighbors):
            return "%s.neighbors: %r != %r" % (path, sorted(a.neighbors), sorted(b.neighbors))
        la = sorted(a.links, key=lambda l: (type(l).__name__, str(l.type), sorted(l.nodes), str(getattr(l, "name", ""))))
        lb = sorted(b.links, key=lambda l: (type(l).__name__, str(l.type), sorted(l.nodes), str(getattr(l, "name", ""))))
        d = deep_diff(la, lb, path + ".links", depth + 1)
        if d:
            return d
        for attr in ("variable", "factor"):
            if hasattr(a, attr):
                d = deep_diff(getattr(a, attr), getattr(b, attr, None), "%s.%s" % (path, attr), depth + 1)
                if d:
                    return d
        if hasattr(a, "constraints"):
            ca = sorted(a.constraints, key=lambda c: c.name)
            cb = sorted(getattr(b, "constraints", []), key=lambda c: c.name)
            d = deep_diff(ca, cb, path + ".constraints", depth + 1)
            if d:
                return d
        if hasattr(a, "constraints_names"):
            if sorted(a.constraints_names) != sorted(b.constraints_names):
                return "%s.constraints_names: %r != %r" % (path, a.constraints_names, b.constraints_names)
        for meth in ("get_next", "get_previous"):
            if hasattr(a, meth):
                try:
                    xa, xb = getattr(a, meth)(), getattr(b, meth)()
                except Exception as e:
                    return "%s.%s() raised %s: %s" % (path, meth, type(e).__name__, e)
                if xa != xb:
                    return "%s.%s(): %r != %r" % (path, meth, xa, xb)
        return None
    # generic object: compare instance dictionaries
    try:
        va, vb = vars(a), vars(b)
    except TypeError:
        return None if a == b else "%s: %r != %r" % (path, a, b)
    ka = sorted(k for k in va if not callable(va[k]) and k not in ("logger",))
    kb = sorted(k for k in vb if not callable(vb[k]) and k not in ("logger",))
    if ka != kb:
        return "%s: attributes %r != %r" % (path, ka, kb)
    for k in ka:
        d = deep_diff(va[k], vb[k], "%s.%s" % (path, k), depth + 1)
        if d:
            return d
    return None

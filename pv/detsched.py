"""Engine A: deterministic single-threaded scheduler owning the transport of *real* computations.

The pool replaces only `computation.message_sender` (and the periodic action handler).  One step is
one of: start(c), deliver(head of a (src,dest,prio) FIFO channel), urgent(dest) (a message re-injected
by the computation itself at priority 19 after start/resume - the real Messaging queue hands these out
before any other pending algorithm message of that agent), tick(periodic action).  Per-channel FIFO is
what the real Messaging guarantees for same-priority messages of one sender; everything else is free.
"""
import collections
import random
import traceback


class StepError(Exception):
    pass


BIASES = ("uniform", "starve", "flood", "late_start", "newest", "oldest", "start_last", "start_first")


class Pool:
    def __init__(self, seed, bias="uniform", wire=False, choices=None):
        self.rng = random.Random(seed)
        self.bias = bias
        self.wire = wire  # push every message through the JSON wire format
        self.paused_start = set()
        self.comps = {}
        self.order = []
        self.channels = collections.OrderedDict()  # (src,dest,prio) -> deque[(mid,msg)]
        self.urgent = collections.OrderedDict()  # dest -> deque[(src,msg,mid)]
        self.started = set()
        self.start_step = {}
        self.nostart = set()  # computations the scheduler must not start by itself
        self.ticks = []  # [handle, period, cb, owner]
        self.trace = []  # choice indexes (replayable)
        self.steps = 0
        self.mid = 0
        self.delivered = 0
        self.sent = 0
        self.errors = []  # (step description, exception repr, traceback)
        self.finished = collections.OrderedDict()  # name -> [step numbers]
        self.log = []  # optional event log (monitors append)
        self.observers = []  # callables(kind, data) called after each step / event
        self.replay_choices = list(choices) if choices is not None else None
        self.bias_target = None
        self.late_until = 0
        self.external = {}  # dest name -> callable(src, msg) for non-pool destinations
        self.dropped = []
        self.current = None  # computation being executed

    # ------------------------------------------------------------------ wiring
    def add(self, comp, autostart=True):
        name = comp.name
        self.comps[name] = comp
        self.order.append(name)
        comp.message_sender = self.send
        try:
            comp.periodic_action_handler = self
        except AttributeError:
            pass
        orig_finished = comp.finished
        pool = self

        def finished_wrapper(*a, **k):
            r = orig_finished(*a, **k)
            pool.finished.setdefault(name, []).append(pool.steps)
            pool._emit("finished", name)
            return r

        comp.finished = finished_wrapper
        if hasattr(comp, "_on_value_selection"):
            o = comp._on_value_selection

            def vs(val, cost, cycle, _o=o):
                _o(val, cost, cycle)
                pool._emit("value", (name, val, cost, cycle))

            comp._on_value_selection = vs
        if hasattr(comp, "_on_new_cycle"):
            o2 = comp._on_new_cycle

            def nc(count, _o=o2):
                _o(count)
                pool._emit("cycle", (name, count))

            comp._on_new_cycle = nc
        if not autostart:
            self.nostart.add(name)
        return comp

    def _emit(self, kind, data):
        for ob in self.observers:
            ob(kind, data)

    # periodic action handler interface (what Agent offers)
    def set_periodic_action(self, period, cb):
        h = [len(self.ticks), period, cb, self.current]
        self.ticks.append(h)
        return cb

    def remove_periodic_action(self, handle):
        self.ticks = [t for t in self.ticks if t[2] is not handle]

    # transport
    def send(self, src, dest, msg, prio=None, on_error=None):
        self.mid += 1
        self.sent += 1
        if self.wire:
            import json
            from pydcop.utils.simple_repr import simple_repr, from_repr

            msg = from_repr(json.loads(json.dumps(simple_repr(msg))))
        self._emit("send", (src, dest, msg, prio, self.mid))
        if dest == self.current and prio is not None and 18 < prio <= 19 and dest in self.comps:
            # re-injection by the destination itself: handed out before any other algorithm message, lower
            # priority value first, FIFO among equal priorities (as the real priority queue does)
            q = self.urgent.setdefault(dest, [])
            q.append((prio, self.mid, src, msg))
            q.sort(key=lambda e: (e[0], e[1]))
            return
        p = 20 if prio is None else prio
        self.channels.setdefault((src, dest, p), collections.deque()).append((self.mid, msg))

    # ------------------------------------------------------------------ stepping
    def enabled(self):
        steps = []
        for n in self.order:
            if n not in self.started and n not in self.nostart:
                steps.append(("start", n))
        blocked = {d for d, q in self.urgent.items() if q}
        for d in blocked:
            steps.append(("urgent", d))
        for key, q in self.channels.items():
            if q and key[1] not in blocked:
                if key[1] in self.comps or key[1] in self.external:
                    steps.append(("deliver", key))
        for t in self.ticks:
            steps.append(("tick", t[0]))
        return steps

    def _pick(self, steps):
        if self.replay_choices is not None:
            if not self.replay_choices:
                return None
            i = self.replay_choices.pop(0)
            return i if i < len(steps) else None
        rng = self.rng
        idxs = list(range(len(steps)))
        nontick = [i for i in idxs if steps[i][0] != "tick"]
        # ticks are time driven: only fire them sometimes when other work exists
        if nontick and len(nontick) < len(idxs) and rng.random() < 0.8:
            idxs = nontick
        b = self.bias
        if b == "uniform" or len(idxs) == 1:
            return rng.choice(idxs)

        def dest_of(s):
            if s[0] == "deliver":
                return s[1][1]
            if s[0] in ("start", "urgent"):
                return s[1]
            return None

        # weak fairness: every bias is dropped for one step with probability 0.1, so that a non
        # terminating algorithm cannot starve a computation or a start forever.
        if rng.random() < 0.1:
            return rng.choice(idxs)
        if b == "starve":
            pref = [i for i in idxs if dest_of(steps[i]) != self.bias_target]
            return rng.choice(pref or idxs)
        if b == "late_start":
            if self.steps < self.late_until:
                pref = [i for i in idxs if not (steps[i][0] == "start" and steps[i][1] == self.bias_target)]
                return rng.choice(pref or idxs)
            return rng.choice(idxs)
        if b == "start_last":
            pref = [i for i in idxs if steps[i][0] != "start"]
            return rng.choice(pref or idxs)
        if b == "start_first":
            pref = [i for i in idxs if steps[i][0] == "start"]
            return rng.choice(pref or idxs)
        if b == "flood":
            dl = [i for i in idxs if steps[i][0] == "deliver"]
            if dl and rng.random() < 0.8:
                m = max(len(self.channels[steps[i][1]]) for i in dl)
                return rng.choice([i for i in dl if len(self.channels[steps[i][1]]) == m])
            return rng.choice(idxs)
        if b in ("newest", "oldest"):
            dl = [i for i in idxs if steps[i][0] == "deliver"]
            if dl and rng.random() < 0.85:
                f = max if b == "newest" else min
                m = f(self.channels[steps[i][1]][0][0] for i in dl)
                return [i for i in dl if self.channels[steps[i][1]][0][0] == m][0]
            return rng.choice(idxs)
        return rng.choice(idxs)

    def step(self):
        """Execute one scheduler step. Returns False if nothing is enabled."""
        steps = self.enabled()
        if not steps:
            return False
        i = self._pick(steps)
        if i is None:
            return False
        self.trace.append(i)
        self.exec_step(steps[i])
        return True

    def exec_step(self, s):
        self.steps += 1
        kind = s[0]
        try:
            if kind == "start":
                self.started.add(s[1])
                self.start_step[s[1]] = self.steps
                self.current = s[1]
                if s[1] in self.paused_start:
                    # the computation is paused, started while paused, then resumed (what an agent does when a pause
                    # request precedes the run request): posts made by start() are held and must go out on resume
                    c = self.comps[s[1]]
                    c.pause(True)
                    c.start()
                    c.pause(False)
                else:
                    self.comps[s[1]].start()
            elif kind == "urgent":
                _prio, mid, src, msg = self.urgent[s[1]].pop(0)
                self.current = s[1]
                self.delivered += 1
                self._emit("deliver", (src, s[1], msg, mid))
                self.comps[s[1]].on_message(src, msg, float(self.steps))
            elif kind == "deliver":
                src, dest, prio = s[1]
                mid, msg = self.channels[s[1]].popleft()
                self.delivered += 1
                self._emit("deliver", (src, dest, msg, mid))
                if dest in self.comps:
                    self.current = dest
                    self.comps[dest].on_message(src, msg, float(self.steps))
                else:
                    self.external[dest](src, msg)
            elif kind == "tick":
                for t in self.ticks:
                    if t[0] == s[1]:
                        self.current = t[3]
                        t[2]()
                        break
        except Exception as e:  # a handler raised: that is an observation, not a harness failure
            self.errors.append((repr(s), "%s: %s" % (type(e).__name__, e), traceback.format_exc()[-2500:]))
            self._emit("error", (s, e))
        finally:
            self.current = None
        self._emit("step", s)

    def call(self, name, fn):
        """Run a harness-injected operation `fn()` in the context of computation `name`."""
        self.steps += 1
        self.current = name
        try:
            return fn()
        except Exception as e:
            self.errors.append(("call:%s" % name, "%s: %s" % (type(e).__name__, e), traceback.format_exc()[-2500:]))
            self._emit("error", (("call", name), e))
        finally:
            self.current = None

    def pending(self):
        return sum(len(q) for k, q in self.channels.items() if k[1] in self.comps or k[1] in self.external) + \
            sum(len(q) for q in self.urgent.values())

    def run(self, max_steps, stop=None):
        """Run until quiescence, `stop()` true, or budget. Returns 'quiescent'|'stopped'|'budget'."""
        while self.steps < max_steps:
            if stop is not None and stop():
                return "stopped"
            if not self.step():
                return "quiescent"
            if self.errors:
                return "error"
        return "budget"

    def trace_hash(self):
        from pv.common import stable_hash

        return stable_hash(self.trace)


# ---------------------------------------------------------------------------------- builders

def graph_for(algo_module, dcop):
    from importlib import import_module

    gmod = import_module("pydcop.computations_graph." + algo_module.GRAPH_TYPE)
    return gmod.build_computation_graph(dcop)


def build_computations(algo, dcop, params=None, mode=None, graph=None):
    """Real computations for `algo` on `dcop`, exactly as the runtime builds them."""
    from pydcop.algorithms import load_algorithm_module, AlgorithmDef, ComputationDef

    m = load_algorithm_module(algo)
    g = graph if graph is not None else graph_for(m, dcop)
    ad = AlgorithmDef.build_with_default_param(algo, params or {}, mode=mode or dcop.objective,
                                               parameters_definitions=m.algo_params)
    comps = []
    for node in g.nodes:
        comps.append(m.build_computation(ComputationDef(node, ad)))
    return comps, g, ad


def seed_algo_rngs(seed):
    import numpy

    random.seed(seed)
    numpy.random.seed(seed % (2 ** 32))


def choose_bias(rng, pool, names, max_late=40):
    b = rng.choice(BIASES)
    pool.bias = b
    if names:
        pool.bias_target = rng.choice(sorted(names))
    pool.late_until = rng.randint(3, max_late)
    return b

"""Seeded generator of small DCOP cases, kept as plain data (harness-owned cost tables).

A *case* is a json-able dict:
  objective: 'min'|'max'
  variables: [{name, domain:[values], initial: value|None, costs: {str(index): cost}|None}]
  constraints: [{name, scope:[var names], table:[cost for each assignment in itertools.product order], kind}]
The oracle (cost / brute force) only ever reads this dict; pydcop objects are built from it separately.
"""
import itertools
import math

INF = float("inf")


# ----------------------------------------------------------------------------- oracle side

def var_map(case):
    return {v["name"]: v for v in case["variables"]}


def assignments(case, names=None):
    vm = var_map(case)
    names = names if names is not None else [v["name"] for v in case["variables"]]
    doms = [vm[n]["domain"] for n in names]
    for vals in itertools.product(*doms):
        yield dict(zip(names, vals))


def table_index(case, c, asg):
    vm = var_map(case)
    idx = 0
    for n in c["scope"]:
        d = vm[n]["domain"]
        idx = idx * len(d) + d.index(asg[n])
    return idx


def constraint_value(case, c, asg):
    return c["table"][table_index(case, c, asg)]


def var_cost(v, val):
    if not v.get("costs"):
        return 0
    return v["costs"][v["domain"].index(val)]


def total_cost(case, asg, with_var_costs=True):
    s = 0
    for c in case["constraints"]:
        s += constraint_value(case, c, asg)
    if with_var_costs:
        vm = var_map(case)
        for n, val in asg.items():
            if n in vm:
                s += var_cost(vm[n], val)
    return s


def better(a, b, mode):
    return a < b if mode == "min" else a > b


def brute_force(case, with_var_costs=True):
    """-> (best cost, [optimal assignments])"""
    mode = case["objective"]
    best, args = None, []
    for asg in assignments(case):
        c = total_cost(case, asg, with_var_costs)
        if best is None or better(c, best, mode):
            best, args = c, [asg]
        elif c == best:
            args.append(asg)
    return best, args


def components(case):
    """connected components of the primal constraint graph -> list of sorted name lists"""
    names = [v["name"] for v in case["variables"]]
    parent = {n: n for n in names}

    def find(x):
        while parent[x] != x:
            parent[x] = parent[parent[x]]
            x = parent[x]
        return x

    for c in case["constraints"]:
        sc = c["scope"]
        for a in sc[1:]:
            ra, rb = find(sc[0]), find(a)
            if ra != rb:
                parent[ra] = rb
    comps = {}
    for n in names:
        comps.setdefault(find(n), []).append(n)
    return [sorted(v) for v in comps.values()]


def neighbors(case):
    nb = {v["name"]: set() for v in case["variables"]}
    for c in case["constraints"]:
        for a in c["scope"]:
            for b in c["scope"]:
                if a != b:
                    nb[a].add(b)
    return nb


def close(a, b, tol=1e-9):
    if a == b:
        return True
    if isinstance(a, int) and isinstance(b, int) and not isinstance(a, bool) and not isinstance(b, bool):
        return False  # integers are compared exactly (a relative tolerance would hide small steps on big costs)
    try:
        if math.isinf(a) or math.isinf(b):
            return a == b
        return abs(a - b) <= tol * max(1.0, abs(a), abs(b))
    except TypeError:
        return False


# ----------------------------------------------------------------------------- generation

PALETTES = ("ties", "distinct", "float", "neg", "huge", "hard", "bigbase", "bin", "int62", "dec", "inf", "bigmix", "hugefloat")


def draw_cost(rng, palette, hard_value=10000):
    if palette == "ties":
        return rng.randint(0, 3)
    if palette == "distinct":
        return rng.randint(0, 60)
    if palette == "float":
        return round(rng.uniform(0, 10), 3)
    if palette == "neg":
        return rng.randint(-9, 9)
    if palette == "huge":
        return rng.choice([0, 1, 2 ** 31 + rng.randint(0, 50), 2 ** 33 + rng.randint(0, 5), 7])
    if palette == "hard":
        return rng.choice([0, 0, 0, hard_value, rng.randint(1, 5)])
    if palette == "int62":
        # integers that fit a signed 64-bit word while sums of two or three of them do not
        return rng.choice([2 ** 62 + rng.randint(0, 5), 2 ** 62 - rng.randint(0, 5), rng.randint(0, 5), 2 ** 61 + rng.randint(0, 5)])
    if palette == "hugefloat":
        # float tables whose entries are all whole numbers, some beyond the 64-bit integer range
        return rng.choice([0.0, 1.0, 3.0, 1e19, float(2 ** 63), -1e19, 2.0 ** 70])
    if palette == "bigmix":
        # avoidable big penalties next to small costs: gains of about 1e12 that differ by a few units
        return rng.choice([rng.randint(0, 9), rng.randint(0, 9), 10 ** 12 + rng.randint(0, 9)])
    if palette == "inf":
        # hard constraints written with an infinite cost (gains can then be inf - inf = nan)
        return rng.choice([0, 0, 1, 2, float("inf")])
    if palette == "dec":
        # decimal fractions: many ties whose float arithmetic is inexact (0.7 - 0.4 != 0.3)
        return rng.choice([0.1, 0.2, 0.3, 0.4, 0.7, 0.0])
    if palette == "bin":
        return rng.choice([0, 0, 1, 2])  # many exact gain ties
    if palette == "bigbase":
        # an unavoidable big penalty plus a small soft cost: relative differences around 1e-12
        return 10 ** 12 + rng.randint(0, 9)
    raise ValueError(palette)


def _names(rng, n):
    # names decoupled from creation order (lexical order matters for ordered graphs / dfs roots)
    if rng.random() < 0.25:
        # names of different lengths, where lexical order differs from numeric / length order (x10 < x2)
        pool = ["x%d" % i for i in range(1, 14)] + ["y", "ab"]
    else:
        pool = ["v%02d" % i for i in range(30)]
    rng.shuffle(pool)
    return pool[:n]


def gen_structure(rng, names, shape, max_arity=3):
    """-> list of scopes (lists of names)"""
    n = len(names)
    scopes = []
    if n == 1:
        return scopes
    order = list(names)
    rng.shuffle(order)
    if shape == "chain":
        scopes = [[order[i], order[i + 1]] for i in range(n - 1)]
    elif shape == "star":
        scopes = [[order[0], o] for o in order[1:]]
    elif shape == "tree":
        for i in range(1, n):
            scopes.append([order[rng.randrange(i)], order[i]])
    elif shape == "cycle":
        scopes = [[order[i], order[(i + 1) % n]] for i in range(n)] if n > 2 else [[order[0], order[1]]]
    elif shape == "clique":
        scopes = [[a, b] for a, b in itertools.combinations(order, 2)]
    elif shape == "random":
        p = rng.choice([0.3, 0.5, 0.8])
        scopes = [[a, b] for a, b in itertools.combinations(order, 2) if rng.random() < p]
    elif shape == "components":
        k = rng.randint(2, max(2, n // 2))
        groups = [[] for _ in range(k)]
        for i, o in enumerate(order):
            groups[i % k if i < k else rng.randrange(k)].append(o)
        for g in groups:
            for i in range(1, len(g)):
                scopes.append([g[rng.randrange(i)], g[i]])
            if len(g) > 2 and rng.random() < 0.4:
                a, b = rng.sample(g, 2)
                if [a, b] not in scopes and [b, a] not in scopes:
                    scopes.append([a, b])
    elif shape == "isolated":
        k = max(1, n - rng.randint(1, 2))
        sub = order[:k]
        for i in range(1, len(sub)):
            scopes.append([sub[rng.randrange(i)], sub[i]])
    else:
        raise ValueError(shape)
    return scopes


SHAPES = ("chain", "star", "tree", "cycle", "clique", "random", "components", "isolated")


def gen_case(rng, nvars=None, max_dom=3, shapes=SHAPES, palettes=("ties", "distinct", "float", "neg"),
             objective=None, nary=True, unary=True, var_costs=True, str_domains=True, min_vars=1, max_vars=6,
             binary_only=False, dup_scopes=True, max_space=4096, initial=False):
    n = nvars if nvars is not None else rng.randint(min_vars, max_vars)
    names = _names(rng, n)
    palette = rng.choice(list(palettes))
    objective = objective or rng.choice(["min", "max"])
    variables = []
    space = 1
    for nm in names:
        k = rng.randint(1 if rng.random() < 0.1 else 2, max_dom)
        if space * k > max_space:
            k = max(1, max_space // space)
        space *= k
        if str_domains and rng.random() < 0.3:
            dom = rng.sample(["a", "b", "c", "d", "e"], k)
        else:
            start = rng.choice([0, 0, 1, 5])
            dom = list(range(start, start + k))
            if rng.random() < 0.3:
                rng.shuffle(dom)
        v = {"name": nm, "domain": dom, "initial": None, "costs": None}
        if initial and rng.random() < 0.5:
            v["initial"] = rng.choice(dom)
        if var_costs and rng.random() < 0.35:
            v["costs"] = [draw_cost(rng, palette) for _ in dom]
        variables.append(v)
    shape = rng.choice(list(shapes))
    scopes = gen_structure(rng, names, shape)
    if nary and not binary_only and n >= 3 and rng.random() < 0.5:
        for _ in range(rng.randint(1, 2)):
            scopes.append(rng.sample(names, 3))
    if unary and not binary_only:
        for nm in names:
            if rng.random() < 0.25:
                scopes.append([nm])
    if dup_scopes and scopes and rng.random() < 0.2:
        s = list(rng.choice(scopes))
        if rng.random() < 0.5:
            s.reverse()
        scopes.append(s)
    case = {"objective": objective, "variables": variables, "constraints": [], "shape": shape, "palette": palette}
    vm = var_map(case)
    for i, sc in enumerate(scopes):
        size = 1
        for nm in sc:
            size *= len(vm[nm]["domain"])
        table = [draw_cost(rng, palette) for _ in range(size)]
        case["constraints"].append({"name": "c%02d" % i, "scope": list(sc), "table": table,
                                    "kind": "matrix"})
    return case


def mix_domain_types(rng, case, p=0.8):
    """domains mixing value types ('off', 1, 2.5, True ...), distinct by equality; costs / tables keep their positions"""
    for v in case["variables"]:
        if rng.random() < p:
            pool_ = ["off", "on", "a", 1, 2, 3, 0, 2.5, True]
            k = len(v["domain"])
            dom = []
            for x in rng.sample(pool_, len(pool_)):
                if not any(x == y for y in dom):  # 1 == True
                    dom.append(x)
                if len(dom) == k:
                    break
            v["domain"] = dom
            if v.get("initial") is not None:
                v["initial"] = rng.choice(dom)
    case["mixed_type_domains"] = True
    return case


def case_sig(case):
    from pv.common import stable_hash

    return stable_hash({"o": case["objective"], "v": case["variables"], "c": case["constraints"]})


# ----------------------------------------------------------------------------- pydcop side

def build_variables(case, cost_style="dict"):
    from pydcop.dcop.objects import Domain, Variable, VariableWithCostDict, VariableWithCostFunc
    from pydcop.utils.expressionfunction import ExpressionFunction

    out = {}
    for v in case["variables"]:
        dom = Domain("d_" + v["name"], "t", list(v["domain"]))
        if v.get("costs"):
            costs = {val: c for val, c in zip(v["domain"], v["costs"])}
            style = cost_style
            if style == "expr" and all(isinstance(x, int) for x in v["domain"]) and \
                    all(isinstance(c, (int, float)) and not math.isinf(c) for c in v["costs"]):
                expr = "{%s}[%s]" % (", ".join("%r: %r" % (val, c) for val, c in costs.items()), v["name"])
                out[v["name"]] = VariableWithCostFunc(v["name"], dom, ExpressionFunction(expr), v.get("initial"))
            elif style == "func":
                out[v["name"]] = VariableWithCostFunc(v["name"], dom, (lambda cs: (lambda val: cs[val]))(costs),
                                                       v.get("initial"))
            else:
                out[v["name"]] = VariableWithCostDict(v["name"], dom, costs, v.get("initial"))
        else:
            out[v["name"]] = Variable(v["name"], dom, v.get("initial"))
    return out


def build_constraint(case, c, variables, dtype=None):
    import numpy as np
    from pydcop.dcop.relations import NAryMatrixRelation

    vs = [variables[n] for n in c["scope"]]
    shape = tuple(len(v.domain) for v in vs)
    arr = np.array(c["table"], dtype=dtype if dtype is not None else None).reshape(shape)
    return NAryMatrixRelation(vs, arr, name=c["name"])


def build_dcop(case, cost_style="dict", agents=None):
    from pydcop.dcop.dcop import DCOP

    variables = build_variables(case, cost_style)
    dcop = DCOP("case", case["objective"])
    for v in variables.values():
        dcop.add_variable(v)
        dcop.domains[v.domain.name] = v.domain
    for c in case["constraints"]:
        dcop.add_constraint(build_constraint(case, c, variables))
    if agents:
        dcop.add_agents(agents)
    return dcop


def gen_propagation_chain_case(rng):
    """Chain (with side leaves) of agreement constraints on 2-value domains; a weak preference near one end and a
    contradicting preference exactly twice as strong several hops away: unique optimum = everybody follows the strong
    preference. The information has to travel the whole chain and overrides messages already sent several times."""
    objective = rng.choice(["min", "max"])
    sign = 1 if objective == "min" else -1
    n = rng.randint(4, 7)
    names = sorted(_names(rng, n + 2))
    rng.shuffle(names)
    chain, leaves = names[:n], names[n:]
    dom = rng.choice([[0, 1], [1, 0], ["a", "b"], [5, 6]])
    variables = [{"name": nm, "domain": list(dom), "initial": None, "costs": None} for nm in chain + leaves]
    P = 10 * rng.randint(1, 3)
    s = rng.randint(1, 3)
    base = 0
    if rng.random() < 0.4:
        # large constant part in every factor, small decisive differences (late information changes the factor ->
        # variable messages by far less than 10 %)
        base, P, s = rng.choice([100, 1000]), rng.randint(1, 3), rng.choice([0.25, 0.5])

    def agree(x, y, k):
        return {"name": "c%02d" % k, "scope": [x, y], "kind": "matrix", "table": [sign * base, sign * (base + P), sign * (base + P), sign * base]}

    cons = []
    for i in range(n - 1):
        cons.append(agree(chain[i], chain[i + 1], len(cons)))
    weak_at = rng.randint(0, 1)
    for lf in leaves:
        cons.append(agree(lf, chain[rng.randint(0, 1)], len(cons)))
    # weak preference for dom[0] near the start, strong preference (2s) for dom[1] at the far end
    cons.append({"name": "c%02d" % len(cons), "scope": [chain[weak_at]], "kind": "matrix", "table": [0, sign * 2 * s]})
    cons.append({"name": "c%02d" % len(cons), "scope": [chain[-1]], "kind": "matrix", "table": [sign * 4 * s, 0]})
    case = {"objective": objective, "variables": variables, "constraints": cons, "shape": "propagation-chain", "palette": "agreement"}
    best, args = brute_force(case)
    if len(args) != 1:
        return None
    case["optimum"] = best
    case["optimal_assignment"] = args[0]
    return case


def gen_tree_factor_case(rng, max_vars=7, max_dom=3, objective=None, unique=True, palettes=("distinct", "neg"),
                         var_costs=True, forest=True, tries=60):
    """Acyclic factor graph (tree or forest) with, if `unique`, exactly one optimal assignment."""
    for _ in range(tries):
        objective_ = objective or rng.choice(["min", "max"])
        n = rng.randint(1, max_vars)
        names = _names(rng, n)
        palette = rng.choice(list(palettes))
        variables = []
        for nm in names:
            k = rng.randint(2, max_dom)
            start = rng.choice([0, 1, 5])
            dom = list(range(start, start + k))
            if rng.random() < 0.3:
                dom = rng.sample(["a", "b", "c", "d"], k)
            v = {"name": nm, "domain": dom, "initial": None, "costs": None}
            if var_costs and rng.random() < 0.3:
                v["costs"] = [draw_cost(rng, palette) for _ in dom]
            variables.append(v)
        scopes = []
        placed = [names[0]]
        rest = names[1:]
        while rest:
            if forest and rng.random() < 0.12:
                placed.append(rest.pop(0))  # new tree root (disconnected component)
                continue
            anchor = rng.choice(placed)
            k = 2 if (len(rest) >= 2 and rng.random() < 0.3) else 1
            new = [rest.pop(0) for _ in range(k)]
            sc = [anchor] + new
            rng.shuffle(sc)
            scopes.append(sc)
            placed.extend(new)
        for nm in names:
            if rng.random() < 0.3:
                scopes.append([nm])
        case = {"objective": objective_, "variables": variables, "constraints": [], "shape": "factor-tree",
                "palette": palette}
        vm = var_map(case)
        for i, sc in enumerate(scopes):
            size = 1
            for nm in sc:
                size *= len(vm[nm]["domain"])
            case["constraints"].append({"name": "c%02d" % i, "scope": list(sc), "kind": "matrix",
                                        "table": [draw_cost(rng, palette) for _ in range(size)]})
        if not unique:
            return case
        best, args = brute_force(case)
        if len(args) == 1:
            case["optimum"] = best
            case["optimal_assignment"] = args[0]
            return case
    return None


def factor_graph_diameter(case):
    """diameter (in edges) of the largest component of the bipartite variable/factor graph"""
    adj = {}
    for v in case["variables"]:
        adj[v["name"]] = set()
    for c in case["constraints"]:
        adj[c["name"]] = set(c["scope"])
        for n in c["scope"]:
            adj[n].add(c["name"])
    best = 0
    for s in adj:
        dist = {s: 0}
        q = [s]
        while q:
            x = q.pop(0)
            for y in adj[x]:
                if y not in dist:
                    dist[y] = dist[x] + 1
                    q.append(y)
        best = max(best, max(dist.values()))
    return best

"""Generator of relation specs (harness-owned tables) and builders of the real pydcop relation objects.

spec = {kind, name, vars: [[name, domain], ...] in the ORDER GIVEN to the constructor, table: {repr(tuple in
that order) -> value}, ...kind specific...}.  The oracle value of a full assignment is `spec_value(spec, asg)`,
computed from the spec only.
"""
import functools
import itertools

KINDS = ("matrix", "expr", "expr_table", "nary_expr", "func_pos", "func_kwargs", "func_partial", "unary_func",
         "unary_expr", "unary_bool", "zeroary", "neutral", "conditional", "nary_expr_renamed", "func_pos_named", "func_named_kwargs", "func_kwonly")

_POOL = ["x", "y", "z", "w", "aa", "bb", "v1", "v2", "v10", "k", "m", "n1", "q", "t", "T", "X", "Q"]


def draw_vars(rng, n, max_dom=3):
    names = rng.sample(_POOL, n)
    out = []
    for nm in names:
        k = rng.randint(2, max_dom)
        start = rng.choice([0, 1, 2])
        out.append([nm, list(range(start, start + k))])
    return out


NARROW = {"narrow8": 2 ** 7 - 1, "narrow16": 2 ** 15 - 1, "narrow32": 2 ** 31 - 1}
NARROW_DTYPE = {"narrow8": "int8", "narrow16": "int16", "narrow32": "int32"}


def draw_value(rng, mag):
    if mag == "small":
        return rng.randint(-5, 9)
    if mag == "float":
        return round(rng.uniform(-5, 5), 2)
    if mag == "big":
        return rng.choice([2 ** 31 + rng.randint(0, 9), -(2 ** 31) - rng.randint(1, 9), 2 ** 40 + rng.randint(0, 3), 3])
    if mag == "hugeint":
        return rng.choice([2 ** 60 + rng.randint(1, 9), -(2 ** 55) - rng.randint(1, 9), 2 ** 53 + 1, rng.randint(0, 9)])
    if mag == "int63":
        # each value fits a signed 64-bit cell, sums of two same-sign ones do not
        return rng.choice([2 ** 62 + rng.randint(0, 9), -(2 ** 62) - rng.randint(0, 9), 2 ** 62, rng.randint(0, 9)])
    if mag == "huge":
        return rng.choice([float(2 ** 63) * rng.randint(1, 4), -float(2 ** 64), 1.5, 7])
    if mag == "inf":
        return rng.choice([float("inf"), float("inf"), -float("inf"), rng.randint(0, 5)])
    if mag == "mixed":
        return draw_value(rng, rng.choice(["small", "float", "big", "huge", "inf"]))
    if mag in NARROW:
        # values that fit a fixed-width table (numpy dtype given by the spec) while sums of two or three do not
        top = NARROW[mag]
        return rng.choice([top - rng.randint(0, 9), top // 2 + rng.randint(0, 9), -(top - rng.randint(0, 9)), rng.randint(0, 5)])
    raise ValueError(mag)


def all_assignments(vars_):
    names = [v[0] for v in vars_]
    for vals in itertools.product(*[v[1] for v in vars_]):
        yield dict(zip(names, vals))


def key_of(vars_, asg):
    return repr(tuple(asg[v[0]] for v in vars_))


def gen_spec(rng, kind=None, nvars=None, mag="small", max_dom=3, name="r0"):
    kind = kind or rng.choice(KINDS)
    spec = {"kind": kind, "name": name, "mag": mag}
    if kind == "zeroary":
        spec["vars"] = []
        spec["value"] = draw_value(rng, mag)
        return spec
    if kind in ("unary_func", "unary_expr", "unary_bool"):
        nvars = 1
    if nvars is None:
        nvars = rng.randint(1, 4) if kind not in ("conditional",) else rng.randint(2, 4)
    vars_ = draw_vars(rng, nvars, max_dom)
    if kind in ("expr", "nary_expr", "expr_table", "conditional") and len(vars_) >= 2 and rng.random() < 0.25:
        # two names that differ only by case (t / T): any case-insensitive ordering would tie on them
        lo = rng.choice(["t", "x", "q", "k"])
        others = [v[0] for v in vars_[2:]]
        if lo not in others and lo.upper() not in others:
            vars_[0][0], vars_[1][0] = (lo, lo.upper()) if rng.random() < 0.5 else (lo.upper(), lo)
    spec["vars"] = vars_
    if kind in ("matrix", "expr_table", "func_pos", "func_kwargs", "func_partial", "unary_func", "func_pos_named", "func_named_kwargs", "func_kwonly"):
        spec["table"] = {key_of(vars_, a): draw_value(rng, mag) for a in all_assignments(vars_)}
        if kind == "func_partial":
            spec["extra"] = rng.randint(1, 5)
    elif kind in ("expr", "nary_expr", "unary_expr"):
        # arithmetic expression over the variable names (asymmetric so that swapped arguments show)
        names = [v[0] for v in vars_]
        coefs = [rng.randint(1, 9) * (10 ** i) for i in range(len(names))]
        rng.shuffle(coefs)
        terms = ["%d * %s" % (c, n) for c, n in zip(coefs, names)]
        if len(names) >= 2 and rng.random() < 0.5:
            terms.append("%s * %s" % (names[0], names[-1]))
        spec["expr"] = " + ".join(terms) + " - %d" % rng.randint(0, 5)
        spec["coefs"] = coefs
    if kind == "func_pos_named":
        # a plain python function bound by POSITION whose parameter names are either a permutation of the variable
        # names or foreign names in non-alphabetical order (names must play no role for python functions)
        names = [v[0] for v in vars_]
        if rng.random() < 0.5 and len(names) >= 2:
            params = list(names)
            while params == names:
                rng.shuffle(params)
        else:
            params = rng.sample(["room", "light", "level", "t", "s", "r", "q", "zeta", "b2"], len(names))
        spec["params"] = params
    elif kind == "nary_expr_renamed":
        # the expression uses its own argument names: variables are bound to them by position (sorted argument names)
        if len(vars_) < 2:
            vars_ = draw_vars(rng, rng.randint(2, 4), max_dom)
            spec["vars"] = vars_
        args = rng.sample(["p", "P", "alpha", "beta", "zz", "a1", "c", "C", "kk", "b", "B", "arg9", "arg10"], len(vars_))
        coefs = [rng.randint(1, 9) * (10 ** i) for i in range(len(args))]
        rng.shuffle(coefs)
        terms = ["%d * %s" % (c, n) for c, n in zip(coefs, args)]
        if rng.random() < 0.5:
            terms.append("%s * %s" % (args[0], args[-1]))
        spec["expr"] = " + ".join(terms) + " - %d" % rng.randint(0, 5)
        spec["arg_names"] = args
    elif kind == "unary_bool":
        vars_[0][1] = rng.choice([[0, 1], [0, 1, 2], ["", "a"], [False, True]])
    elif kind == "neutral":
        pass
    elif kind == "conditional":
        # condition over a subset, consequence over a subset (shared or not)
        names = [v[0] for v in vars_]
        k = rng.randint(1, max(1, len(names) - 1))
        cond_names = names[:k]
        if rng.random() < 0.5:
            cons_names = names[k:] or names[-1:]
        else:
            cons_names = names[rng.randint(0, k - 1):]  # shares at least one variable with the condition
        vm = {v[0]: v for v in vars_}
        cond_vars = [vm[n] for n in cond_names]
        cons_vars = [vm[n] for n in cons_names]
        rng.shuffle(cons_vars)
        spec["cond_vars"] = cond_vars
        spec["cons_vars"] = cons_vars
        spec["cond_table"] = {key_of(cond_vars, a): rng.choice([0, 1, 1, True, False]) for a in all_assignments(cond_vars)}
        spec["cons_table"] = {key_of(cons_vars, a): draw_value(rng, mag) for a in all_assignments(cons_vars)}
        spec["return_neutral"] = rng.random() < 0.5
        # dimensions of the conditional = union of both
        used = []
        for v in cond_vars + cons_vars:
            if v not in used:
                used.append(v)
        spec["vars"] = used
    return spec


def _eval_expr(expr, asg):
    return eval(expr, {"__builtins__": {}}, dict(asg))  # harness-side arithmetic, independent of pydcop


def spec_value(spec, asg):
    kind = spec["kind"]
    if kind == "zeroary":
        return spec["value"]
    if kind == "neutral":
        return 0
    if kind == "unary_bool":
        return True if asg[spec["vars"][0][0]] else False
    if kind == "nary_expr_renamed":
        args = sorted(spec["arg_names"])
        return _eval_expr(spec["expr"], {args[i]: asg[v[0]] for i, v in enumerate(spec["vars"])})
    if kind in ("expr", "nary_expr", "unary_expr"):
        return _eval_expr(spec["expr"], {v[0]: asg[v[0]] for v in spec["vars"]})
    if kind == "conditional":
        if spec["cond_table"][key_of(spec["cond_vars"], asg)]:
            return spec["cons_table"][key_of(spec["cons_vars"], asg)]
        return 0
    v = spec["table"][key_of(spec["vars"], asg)]
    if kind == "func_partial":
        return v + spec["extra"]
    return v


def build_vars(spec, cache=None):
    from pydcop.dcop.objects import Variable, Domain

    cache = cache if cache is not None else {}
    out = []
    for nm, dom in spec["vars"]:
        if nm not in cache:
            cache[nm] = Variable(nm, Domain("d_" + nm, "t", list(dom)))
        out.append(cache[nm])
    return out, cache


def build_relation(spec, cache=None):
    """-> (relation object, {name: Variable})"""
    import numpy as np
    from pydcop.dcop import relations as R
    from pydcop.utils.expressionfunction import ExpressionFunction

    vs, cache = build_vars(spec, cache)
    kind, name = spec["kind"], spec["name"]
    names = [v[0] for v in spec["vars"]]

    def table_fn(table, vars_):
        def lookup(asg):
            return table[key_of(vars_, asg)]
        return lookup

    if kind == "matrix":
        shape = tuple(len(v[1]) for v in spec["vars"])
        flat = [spec["table"][key_of(spec["vars"], a)] for a in all_assignments(spec["vars"])]
        try:
            arr = np.array(flat, dtype=spec["dtype"]).reshape(shape) if spec.get("dtype") else np.array(flat).reshape(shape)
        except (OverflowError, ValueError):
            arr = np.array(flat, dtype=object).reshape(shape)
        return R.NAryMatrixRelation(vs, arr, name=name), cache
    if kind == "expr":
        return R.constraint_from_str(name, spec["expr"], list(cache.values())), cache
    if kind == "expr_table":
        lit = "{%s}[(%s,)]" % (", ".join("%s: %r" % (k, v) for k, v in spec["table"].items()), ", ".join(names))
        if any(isinstance(v, float) and (v != v or v in (float("inf"), -float("inf"))) for v in spec["table"].values()):
            lit = lit.replace("inf", "float('inf')")
        return R.constraint_from_str(name, lit, list(cache.values())), cache
    if kind in ("nary_expr", "nary_expr_renamed"):
        return R.NAryFunctionRelation(ExpressionFunction(spec["expr"]), vs, name=name), cache
    if kind == "unary_expr":
        return R.UnaryFunctionRelation(name, vs[0], ExpressionFunction(spec["expr"])), cache
    if kind == "func_pos":
        look = table_fn(spec["table"], spec["vars"])
        n = len(names)
        if n == 1:
            def f(p0):
                return look({names[0]: p0})
        elif n == 2:
            def f(p0, p1):
                return look({names[0]: p0, names[1]: p1})
        elif n == 3:
            def f(p0, p1, p2):
                return look({names[0]: p0, names[1]: p1, names[2]: p2})
        else:
            def f(p0, p1, p2, p3):
                return look({names[0]: p0, names[1]: p1, names[2]: p2, names[3]: p3})
        return R.NAryFunctionRelation(f, vs, name=name), cache
    if kind in ("func_named_kwargs", "func_kwonly"):
        # python functions called BY NAME: a plain function given with f_kwargs=True, or a function with keyword-only
        # parameters; the parameters are the variable names, declared in another order than the variable list
        look = table_fn(spec["table"], spec["vars"])
        params = sorted(names, reverse=True)
        if params == names:
            params = sorted(names)
        body = "_look({%s})" % ", ".join("%r: %s" % (n, n) for n in names)
        if kind == "func_kwonly":
            f = eval("lambda *, %s: %s" % (", ".join(params), body), {"_look": look})
            return R.NAryFunctionRelation(f, vs, name=name), cache
        f = eval("lambda %s: %s" % (", ".join(params), body), {"_look": look})
        return R.NAryFunctionRelation(f, vs, name=name, f_kwargs=True), cache
    if kind == "func_pos_named":
        look = table_fn(spec["table"], spec["vars"])
        params = spec["params"]
        src = "lambda %s: _look({%s})" % (", ".join(params), ", ".join("%r: %s" % (names[i], params[i]) for i in range(len(names))))
        f = eval(src, {"_look": look})
        return R.NAryFunctionRelation(f, vs, name=name), cache
    if kind == "func_kwargs":
        look = table_fn(spec["table"], spec["vars"])

        def g(**kw):
            return look(kw)

        return R.NAryFunctionRelation(g, vs, name=name), cache
    if kind == "func_partial":
        look = table_fn(spec["table"], spec["vars"])
        n = len(names)
        argn = ["p%d" % i for i in range(n)]
        src = "def h(%s, extra):\n    return look({%s}) + extra\n" % (
            ", ".join(argn), ", ".join("%r: %s" % (nm, a) for nm, a in zip(names, argn)))
        env = {"look": look}
        exec(src, env)
        return R.NAryFunctionRelation(functools.partial(env["h"], extra=spec["extra"]), vs, name=name), cache
    if kind == "unary_func":
        look = table_fn(spec["table"], spec["vars"])
        return R.UnaryFunctionRelation(name, vs[0], lambda val: look({names[0]: val})), cache
    if kind == "unary_bool":
        return R.UnaryBooleanRelation(name, vs[0]), cache
    if kind == "zeroary":
        return R.ZeroAryRelation(name, spec["value"]), cache
    if kind == "neutral":
        return R.NeutralRelation(vs, name), cache
    if kind == "conditional":
        cvs, cache = build_vars({"vars": spec["cond_vars"]}, cache)
        qvs, cache = build_vars({"vars": spec["cons_vars"]}, cache)
        ctab, cvars = spec["cond_table"], spec["cond_vars"]
        qtab, qvars = spec["cons_table"], spec["cons_vars"]

        def cond(**kw):
            return ctab[key_of(cvars, kw)]

        def cons(**kw):
            return qtab[key_of(qvars, kw)]

        c = R.NAryFunctionRelation(cond, cvs, name=name + "_cond")
        q = R.NAryFunctionRelation(cons, qvs, name=name + "_cons")
        return R.ConditionalRelation(c, q, name=name, return_neutral=spec["return_neutral"]), cache
    raise ValueError(kind)


def same(a, b, tol=1e-9):
    if isinstance(a, bool) or isinstance(b, bool):
        return bool(a) == bool(b) and (a == b)
    try:
        import numpy as np

        if isinstance(a, np.generic):
            a = a.item()
        if isinstance(a, np.ndarray) and a.shape == ():
            a = a.item()
    except Exception:
        pass
    if a == b:
        return True
    if isinstance(b, int):
        return False  # an expected integer is matched exactly, also by a float result (no tolerance on big integers)
    try:
        fa, fb = float(a), float(b)
    except Exception:
        return False
    if fa != fa or fb != fb:
        return False
    if fa in (float("inf"), -float("inf")) or fb in (float("inf"), -float("inf")):
        return fa == fb
    return abs(fa - fb) <= tol * max(1.0, abs(fa), abs(fb))

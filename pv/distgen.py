"""Shared generator / helpers for the distribution checks (C23, C24)."""
import contextlib
import io
import itertools

from pv import gen

METHODS = ["oneagent", "adhoc", "heur_comhost", "gh_cgdp", "ilp_fgdp", "ilp_compref", "oilp_cgdp", "ilp_compref_fg"]
ILP = ("ilp_fgdp", "ilp_compref", "oilp_cgdp", "ilp_compref_fg")
PINNING = ("gh_cgdp", "ilp_fgdp", "oilp_cgdp")  # documented: hosting cost 0 pins the computation on that agent
GRAPHS = {"constraints_hypergraph": "dsa", "factor_graph": "maxsum", "pseudotree": "dpop", "ordered_graph": "syncbb"}


def install_cbc():
    """glpsol is not installed in this sandbox: rebind GLPK_CMD in the ILP modules to an adapter building PuLP's
    bundled CBC, so that the real model-building code runs and only the external solver differs."""
    import importlib
    import pulp

    def adapter(*a, **k):
        tl = None
        opts = k.get("options") or []
        if "--tmlim" in opts:
            try:
                tl = max(1, int(opts[opts.index("--tmlim") + 1]))
            except Exception:
                tl = None
        return pulp.PULP_CBC_CMD(msg=False, timeLimit=tl or 60)

    out = {}
    for m in ILP:
        try:
            mod = importlib.import_module("pydcop.distribution." + m)
            mod.GLPK_CMD = adapter
            out[m] = None
        except Exception as e:
            out[m] = "%s: %s" % (type(e).__name__, e)
    return out


def gen_instance(rng, graph=None, max_comps=6, max_agents=4, tiny=False, asymmetric_routes=False, secp_hint_p=0.4, pin_bias=False, hint_bias=False):
    graph = graph or rng.choice(list(GRAPHS))
    case = gen.gen_case(rng, min_vars=1, max_vars=3 if tiny else 5, max_dom=2, palettes=("ties",), max_space=64,
                        var_costs=False, binary_only=(graph == "ordered_graph"), nary=True,
                        unary=not tiny and graph != "ordered_graph", dup_scopes=True)
    if tiny and graph == "factor_graph":
        # keep variables + factors <= 5
        while len(case["variables"]) + len(case["constraints"]) > 5 and case["constraints"]:
            case["constraints"].pop()
    ncomp = len(case["variables"]) + (len(case["constraints"]) if graph == "factor_graph" else 0)
    names = [v["name"] for v in case["variables"]] + ([c["name"] for c in case["constraints"]] if graph == "factor_graph" else [])
    fp = {n: rng.choice([1, 2, 3, 5]) for n in names}
    load = {}
    na = rng.randint(1, 3 if tiny else max_agents)
    agents = ["a%d" % i for i in range(na)]
    total = sum(fp.values())
    capkind = rng.choice(["ample", "ample", "exact", "small", "mixed"]) if not (pin_bias or hint_bias) else rng.choice(["ample", "exact", "exact", "small", "mixed"])
    adefs = []
    default_route = rng.choice([1, 1, 2])
    routes = {}
    for i, a in enumerate(agents):
        for b in agents[i + 1:]:
            if rng.random() < 0.5:
                routes[(a, b)] = rng.choice([1, 2, 4, 7])
    zero_mode = rng.choice(["default0", "nonzero", "nonzero", "some_zero"]) if not pin_bias else rng.choice(["default0", "nonzero", "some_zero", "some_zero", "some_zero"])
    asym = asymmetric_routes and rng.random() < 0.5
    if asym:
        for i, a in enumerate(agents):
            for b in agents[i + 1:]:
                routes.setdefault((a, b), rng.choice([1, 2, 4, 7]))
    for a in agents:
        if capkind == "ample":
            cap = total + 10
        elif capkind == "exact":
            cap = max(1, (total + na - 1) // na + rng.choice([0, 1]))
        elif capkind == "small":
            cap = rng.choice([0, 1, 2, 3])
        else:
            cap = rng.choice([0, 2, 5, total, total + 10])
        dh = 0 if zero_mode == "default0" else rng.choice([1, 2, 5])
        hc = {}
        for n in names:
            if rng.random() < 0.3:
                hc[n] = rng.choice([1, 3, 10]) if zero_mode != "some_zero" or rng.random() < 0.5 else 0
        r = {}
        for (x, y), v in routes.items():
            if x == a:
                r[y] = v
            elif y == a:
                # each agent has its own route table: a few tables disagree on the cost of a link (asymmetric routes)
                r[x] = v if not asym or rng.random() < 0.3 else rng.choice([1, 2, 4, 7, 15, 40])
        adefs.append({"name": a, "capacity": cap, "default_hosting_cost": dh, "hosting_costs": hc, "routes": r})
    if zero_mode == "some_zero":
        # at most one agent with cost 0 per computation (several zeros is an unspecified situation)
        for n in names:
            zs = [d for d in adefs if d["hosting_costs"].get(n) == 0]
            for d in zs[1:]:
                d["hosting_costs"][n] = 2
    hints = {"must_host": {}, "host_with": {}}
    if (hint_bias or rng.random() < 0.35) and names:
        # hint_bias: placement hints for 1-3 computations together with tight capacities (methods that place at random and
        # retry must honour the hints in every attempt)
        for n in rng.sample(names, min(len(names), rng.randint(1, 3 if hint_bias else 2))):
            hints["must_host"].setdefault(rng.choice(agents), []).append(n)
    zero_cap = [d["name"] for d in adefs if d["capacity"] == 0]
    if zero_cap and names and rng.random() < 0.5:
        # a hint asking an agent without any capacity to host a computation (impossible unless the footprint is 0)
        free_names = [n for n in names if not any(n in ns for ns in hints["must_host"].values())]
        if free_names:  # a computation is pinned on one agent at most (contradictory hints are not valid input)
            hints["must_host"].setdefault(rng.choice(zero_cap), []).append(rng.choice(free_names))
    if graph == "factor_graph" and case["constraints"] and rng.random() < secp_hint_p:
        # SECP-like "model" hint: a factor hosted with one of the variables of its scope
        c = rng.choice(case["constraints"])
        v_ = rng.choice(c["scope"])
        hints["host_with"][c["name"]] = [v_]
        if hint_bias and rng.random() < 0.85 and not any(v_ in ns for ns in hints["must_host"].values()):
            # ... and that variable is itself pinned on an agent by a must_host hint (an actuator variable with its model);
            # the model is heavier than the variable and the agent's capacity is just below / at / above what both need
            pinned_on = rng.choice(agents)
            hints["must_host"].setdefault(pinned_on, []).append(v_)
            if rng.random() < 0.85:
                fp[c["name"]], fp[v_] = rng.choice([3, 5]), 1
                need = sum(fp[n] for n in hints["must_host"][pinned_on]) + fp[c["name"]]
                for d_ in adefs:
                    if d_["name"] == pinned_on:
                        d_["capacity"] = max(0, need + rng.choice([-2, -1, -1, 0, 1]))
    elif rng.random() < 0.25 and len(names) >= 2:
        x, y = rng.sample(names, 2)
        hints["host_with"][x] = [y]
    return {"graph": graph, "case": case, "footprints": fp, "agents": adefs, "default_route": default_route,
            "hints": hints, "load_seed": rng.randint(0, 10 ** 6), "zero_mode": zero_mode, "capkind": capkind, "asymmetric_routes": asym}


# The footprint functions are the same two function objects for every instance of a process, as an algorithm module's
# computation_memory / communication_load are: a method that remembers what it computed for (function, node) must not serve
# it again for an equal node of another graph.
_CURRENT = {"fp": {}, "loads": {}, "rng": None}


def computation_memory(node):
    return _CURRENT["fp"][node.name]


def communication_load(node, target):
    key = tuple(sorted((node.name, target)))  # symmetric, as the real footprint functions are per link
    loads = _CURRENT["loads"]
    if key not in loads:
        loads[key] = _CURRENT["rng"].choice([1, 2, 5, 10])
    return loads[key]


def build(inst):
    from importlib import import_module
    from pydcop.dcop.objects import AgentDef
    from pydcop.distribution.objects import DistributionHints

    dcop = gen.build_dcop(inst["case"])
    cg = import_module("pydcop.computations_graph." + inst["graph"]).build_computation_graph(dcop)
    agents = [AgentDef(d["name"], capacity=d["capacity"], default_hosting_cost=d["default_hosting_cost"],
                       hosting_costs=dict(d["hosting_costs"]), default_route=inst["default_route"], routes=dict(d["routes"]))
              for d in inst["agents"]]
    import random as _r

    _CURRENT["fp"], _CURRENT["loads"], _CURRENT["rng"] = inst["footprints"], {}, _r.Random(inst["load_seed"])

    # make the load table independent of call order
    for n in cg.nodes:
        for l in n.links:
            for t in sorted(l.nodes):
                if t != n.name:
                    communication_load(n, t)
    hints = None
    if inst["hints"]["must_host"] or inst["hints"]["host_with"]:
        hints = DistributionHints(must_host={k: list(v) for k, v in inst["hints"]["must_host"].items()},
                                  host_with={k: list(v) for k, v in inst["hints"]["host_with"].items()})
    return dcop, cg, agents, computation_memory, communication_load, hints


def mapping_problems(inst, method, mapping, names):
    """validity of a returned mapping {agent: [computations]} -> list of (key, message)"""
    P = []
    agents = {d["name"]: d for d in inst["agents"]}
    hosted = {}
    for a, cs in mapping.items():
        if a not in agents:
            P.append(("undeclared-agent", "%s: computations %r hosted on undeclared agent %r" % (method, cs, a)))
        for c in cs:
            hosted.setdefault(c, []).append(a)
    for n in names:
        k = len(hosted.get(n, []))
        if k == 0:
            P.append(("computation-not-hosted", "%s: computation %s is not hosted (mapping %r)" % (method, n, mapping)))
        elif k > 1:
            P.append(("computation-hosted-twice", "%s: computation %s hosted on %r" % (method, n, hosted[n])))
    for c in hosted:
        if c not in names:
            P.append(("unknown-computation", "%s: mapping contains unknown computation %r" % (method, c)))
    if method != "oneagent":
        fp = inst["footprints"]
        for a, cs in mapping.items():
            if a in agents:
                used = sum(fp.get(c, 0) for c in cs)
                if used > agents[a]["capacity"] + 1e-9:
                    P.append(("over-capacity", "%s: agent %s hosts %r (footprint %s) with capacity %s" % (method, a, cs, used, agents[a]["capacity"])))
    if method == "adhoc":
        for a, cs in inst["hints"]["must_host"].items():
            for c in cs:
                if hosted.get(c) != [a]:
                    P.append(("must-host-ignored", "adhoc: %s must be hosted on %s, mapping %r" % (c, a, mapping)))
    if method in PINNING:
        for n in names:
            zs = [d["name"] for d in inst["agents"] if (d["hosting_costs"].get(n, d["default_hosting_cost"])) == 0]
            if len(zs) == 1 and hosted.get(n) and hosted[n] != zs:
                P.append(("zero-cost-pin-ignored", "%s: %s has hosting cost 0 only on %s but is hosted on %r" % (method, n, zs[0], hosted[n])))
    return P


@contextlib.contextmanager
def quiet():
    buf = io.StringIO()
    with contextlib.redirect_stdout(buf), contextlib.redirect_stderr(buf):
        yield buf

"""C30 - problem and scenario generators produce well-formed instances (Engine C)."""
import argparse
import itertools
import os
import random as _r
import shutil
import tempfile

from pv import common

RULE = ("graph colouring: generate() with argparse namespaces (3-16 variables, 2-5 colours, random / scalefree / grid "
        "graphs, hard / soft, extensive / intentional, with and without agents), the generated graph is captured by "
        "wrapping the module's graph builders and the YAML output is parsed back: requested variables and colours, exactly "
        "one constraint per graph edge with that edge's scope, hard = 1000 on equal colours else 0, soft = all entries in "
        "0..9; Ising: generate_ising with the same PRNG seed in intentional and extensive form (rows/cols 2-5, sometimes 10-12 in one direction): equal on "
        "every assignment, var and factor-graph mappings host each computation exactly once; scenario: every event removes "
        "exactly the requested number of distinct agents never removed before; non-trivial = >= 4 variables / >= 3x3 grid "
        "/ >= 2 events; distinct by hash(arguments, seed)")


def gc_case(rng):
    graph = rng.choice(["random", "scalefree", "grid"])
    n = rng.choice([4, 9, 16]) if graph == "grid" else rng.randint(3, 14)
    args = argparse.Namespace(variables_count=n, colors_count=rng.randint(2, 5), graph=graph,
                              allow_subgraph=rng.random() < 0.3, soft=rng.random() < 0.4, intentional=False,
                              noagents=rng.random() < 0.3, p_edge=rng.choice([0.3, 0.5, 0.8]), m_edge=rng.randint(1, 2), output=None)
    if not args.soft:
        args.intentional = rng.random() < 0.4
    return args


def check_graphcoloring(rng, seed):
    import networkx as nx
    from pydcop.commands.generators import graphcoloring as gcm
    from pydcop.dcop.yamldcop import load_dcop_from_file

    P = []
    args = gc_case(rng)
    captured = {}
    originals = {}
    for fname in ("generate_random_graph", "generate_scalefree_graph", "generate_grid_graph"):
        orig = getattr(gcm, fname)
        originals[fname] = orig

        def wrap(*a, _orig=orig, **k):
            g = _orig(*a, **k)
            captured["graph"] = g
            return g

        setattr(gcm, fname, wrap)
    d = tempfile.mkdtemp(prefix="pvc30_")
    W = {"generator": "graph_coloring", "args": vars(args).copy(), "seed": seed}
    try:
        args.output = os.path.join(d, "gc.yaml")
        _r.seed(seed)
        try:
            import numpy

            numpy.random.seed(seed % (2 ** 32))
        except Exception:
            pass
        try:
            gcm.generate(args)
        except Exception as e:
            import traceback

            P.append(("graph_coloring:exception:%s" % type(e).__name__, "generate(%r) raised %s: %s | %s" % (W["args"], type(e).__name__, e, traceback.format_exc()[-300:])))
            return P, W
        dcop = load_dcop_from_file([args.output])
        g = captured.get("graph")
        if g is None:
            P.append(("harness:graph-not-captured", "graph builder was not called"))
            return P, W
        W["edges"] = g.number_of_edges()
        nvars = len(dcop.variables)
        if nvars != args.variables_count:
            P.append(("graph_coloring:variables-count", "%d variables for --variables_count %d (graph %s, %d nodes)" % (
                nvars, args.variables_count, args.graph, g.number_of_nodes())))
        for v in dcop.variables.values():
            if len(v.domain) != args.colors_count:
                P.append(("graph_coloring:colors-count", "variable %s has %d colours, requested %d" % (v.name, len(v.domain), args.colors_count)))
                break
        if not args.noagents and len(dcop.agents) != nvars:
            P.append(("graph_coloring:agents", "%d agents for %d variables" % (len(dcop.agents), nvars)))
        if args.noagents and dcop.agents:
            P.append(("graph_coloring:agents", "--noagents but %d agents" % len(dcop.agents)))
        # node -> variable name, as the generator names them
        node_names = {node: "v%02d" % i for i, node in enumerate(sorted(g.nodes))}
        want_scopes = sorted(tuple(sorted((node_names[u], node_names[v]))) for u, v in g.edges)
        got_scopes = sorted(tuple(sorted(x.name for x in c.dimensions)) for c in dcop.constraints.values())
        if got_scopes != want_scopes:
            P.append(("graph_coloring:constraints-vs-edges", "constraint scopes %r != graph edges %r" % (got_scopes[:6], want_scopes[:6])))
        for c in dcop.constraints.values():
            dims = c.dimensions
            if len(dims) != 2:
                P.append(("graph_coloring:arity", "constraint %s has arity %d" % (c.name, len(dims))))
                continue
            for a, b in itertools.product(dims[0].domain, dims[1].domain):
                val = c(**{dims[0].name: a, dims[1].name: b})
                if args.soft:
                    if not (0 <= val <= 9) or int(val) != val:
                        P.append(("graph_coloring:soft-value", "soft constraint %s(%s,%s) == %r, not in 0..9" % (c.name, a, b, val)))
                        break
                else:
                    want = 1000 if a == b else 0
                    if val != want:
                        P.append(("graph_coloring:hard-value", "hard constraint %s(%s,%s) == %r, expected %r" % (c.name, a, b, val, want)))
                        break
    finally:
        for fname, orig in originals.items():
            setattr(gcm, fname, orig)
        shutil.rmtree(d, ignore_errors=True)
    W["nontrivial"] = args.variables_count >= 4
    return P, W


def check_ising(rng, seed):
    from pydcop.commands.generators import ising

    P = []
    rows, cols = rng.randint(2, 5), rng.randint(2, 5)
    if rng.random() < 0.15:
        # two-digit coordinates (names such as v_10_0 sort before v_9_0)
        if rng.random() < 0.5:
            rows = rng.randint(10, 12)
        else:
            cols = rng.randint(10, 12)
    bin_range, un_range = rng.choice([1.6, 0.5, 3]), rng.choice([0.05, 1, 0])
    W = {"generator": "ising", "rows": rows, "cols": cols, "bin_range": bin_range, "un_range": un_range, "seed": seed}
    try:
        _r.seed(seed)
        d_ext, var_map_e, fg_map_e = ising.generate_ising(rows, cols, bin_range, un_range, True, False, True, True)
        _r.seed(seed)
        d_int, var_map_i, fg_map_i = ising.generate_ising(rows, cols, bin_range, un_range, False, False, True, True)
    except Exception as e:
        P.append(("ising:exception:%s" % type(e).__name__, "generate_ising(%d,%d) raised %s: %s" % (rows, cols, type(e).__name__, e)))
        return P, W
    small = "" if min(rows, cols) > 2 else ":size-2-periodic-grid"
    if sorted(d_ext.variables) != sorted(d_int.variables) or len(d_ext.variables) != rows * cols:
        P.append(("ising:variables" + small, "%d / %d variables for a %dx%d grid" % (len(d_ext.variables), len(d_int.variables), rows, cols)))
    if sorted(d_ext.constraints) != sorted(d_int.constraints):
        P.append(("ising:constraint-names" + small, "extensive %r vs intentional %r" % (sorted(d_ext.constraints)[:5], sorted(d_int.constraints)[:5])))
    else:
        for name, ce in d_ext.constraints.items():
            ci = d_int.constraints[name]
            if sorted(x.name for x in ce.dimensions) != sorted(x.name for x in ci.dimensions):
                P.append(("ising:scope" + small, "%s scopes differ" % name))
                continue
            dims = ce.dimensions
            for vals in itertools.product(*[list(x.domain) for x in dims]):
                asg = dict(zip([x.name for x in dims], vals))
                ve, vi = ce(**asg), ci(**asg)
                if abs(ve - vi) > 1e-9:
                    P.append(("ising:forms-disagree" + small, "%s%r: extensive %r, intentional %r" % (name, asg, ve, vi)))
                    break
    # mappings
    vnames = sorted(d_ext.variables)
    hosted = sorted(c for cs in var_map_e.values() for c in cs)
    if hosted != vnames:
        P.append(("ising:var-mapping" + small, "var mapping hosts %r, variables %r" % (hosted[:6], vnames[:6])))
    comps = sorted(list(d_ext.variables) + list(d_ext.constraints))
    hosted = sorted(c for cs in fg_map_e.values() for c in cs)
    if hosted != comps:
        dup = sorted({c for c in hosted if hosted.count(c) > 1})
        missing = sorted(set(comps) - set(hosted))
        extra = sorted(set(hosted) - set(comps))
        P.append(("ising:fg-mapping" + small, "factor-graph mapping: duplicated %r missing %r unknown %r" % (dup[:4], missing[:4], extra[:4])))
    W["nontrivial"] = min(rows, cols) >= 3
    return P, W


def check_scenario(rng, seed):
    from pydcop.commands.generators import scenario

    P = []
    nag = rng.randint(2, 10)
    agents = ["a%02d" % i for i in range(nag)]
    evts = rng.randint(1, 4)
    acts = rng.randint(1, 3)
    W = {"generator": "scenario", "agents": nag, "events": evts, "actions": acts, "seed": seed}
    feasible = evts * acts <= nag
    _r.seed(seed)
    try:
        delay = rng.choice([10, 10, 0, 1])
        W["delay"] = delay
        sc = scenario.generate_scenario(evts, acts, delay, rng.choice([5, 0]), rng.choice([20, 0]), list(agents))
    except ValueError as e:
        if feasible:
            P.append(("scenario:exception:ValueError", "generate_scenario(%d events x %d actions, %d agents) raised ValueError: %s" % (evts, acts, nag, e)))
        return P, W
    except Exception as e:
        P.append(("scenario:exception:%s" % type(e).__name__, "generate_scenario(%d events x %d actions, %d agents) raised %s: %s" % (
            evts, acts, nag, type(e).__name__, e)))
        return P, W
    if not feasible:
        P.append(("scenario:infeasible-accepted", "%d events x %d removals with only %d agents returned a scenario" % (evts, acts, nag)))
        return P, W
    removed = []
    nevents = 0
    for ev in sc.events:
        if ev.is_delay:
            continue
        nevents += 1
        names = [a.args["agent"] for a in ev.actions if a.type == "remove_agent"]
        if len(names) != acts or len(ev.actions) != acts:
            P.append(("scenario:actions-count", "event %s removes %r, requested %d" % (ev.id, names, acts)))
        if len(set(names)) != len(names):
            P.append(("scenario:duplicate-agent-in-event", "event %s removes %r" % (ev.id, names)))
        for n in names:
            if n in removed:
                P.append(("scenario:agent-removed-twice", "agent %s removed again in event %s" % (n, ev.id)))
            if n not in agents:
                P.append(("scenario:unknown-agent", "agent %s" % n))
        removed += names
    if nevents != evts:
        P.append(("scenario:events-count", "%d removal events, requested %d" % (nevents, evts)))
    W["nontrivial"] = evts >= 2
    return P, W


def worker(job):
    R = common.WorkerResult()
    seed = job["seed"]
    for i in range(job["lo"], job["hi"]):
        rng = common.rng_for(seed, "C30", i)
        fn = [check_graphcoloring, check_ising, check_scenario][i % 3]
        cseed = (seed * 7919 + i) & 0x7FFFFFFF
        try:
            P, W = fn(rng, cseed)
        except Exception as e:
            import traceback

            R.violation("harness:exception", traceback.format_exc()[-700:], {"index": i})
            continue
        nontrivial = bool(W.pop("nontrivial", False))
        R.case(common.stable_hash(W), nontrivial, sample=W if nontrivial and i % 60 < 3 else None)
        R.bump("generators", W["generator"])
        seen = set()
        for k, m in P:
            if k in seen:
                continue
            seen.add(k)
            R.violation(k, m, W)
    return R


def main(chk, tier, seed):
    chk.rule = RULE
    chk.assumptions = ["grid sizes below 3 are rejected by the ising command line; generate_ising is still run on them and reported under the :size-2-periodic-grid keys"]
    n = 1800 if tier == "quick" else 80000
    common.run_chunked(chk, "c30", n, nchunks=16 if tier == "quick" else 64, timeout=3000)
    chk.inconclusive_if(len(chk.extra.get("generators", {})) < 3, "not all three generators exercised")


def replay(payload):
    print("witness:", payload["witness"], "->", payload["what"])
    print("VIOLATION property=C30 replay=(recorded witness)")
    return 1

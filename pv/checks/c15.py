"""C15 - everything sent between agents survives the wire and process spawn (Engine C + Engine A harvest)."""
import json
import pickle
import random as _r

from pv import common, gen, detsched, deepeq
from pv.checks import c10

RULE = ("(1) every message actually sent by the 11 algorithms in real runs under the deterministic scheduler, and by the "
        "discovery / replication harness runs (publish/subscribe/replica messages, UCSReplicateMessage with paths tables), "
        "is encoded simple_repr -> json -> from_repr exactly as HttpCommunicationLayer does and deep-compared (harness "
        "comparison, not __eq__) with the original; (2) differential runs: same instance, seed and schedule with the pool "
        "pushing every message through the wire format must end on the same assignment; (3) ComputationDefs of all four "
        "graph models built by the real builders from generated DCOPs (matrix and expression constraints, variables with "
        "cost dicts / expressions, int/str/float domains) inside DeployMessage; (4) every orchestration message type with "
        "generated contents (int-keyed dicts, tuples, nested lists, metrics); (5) AgentDef pickle round trip (name, extra "
        "attributes, hosting_cost(*), route(*), default_route); (6) every class built by message_type in the algorithm, "
        "infrastructure and replication modules, instantiated and decoded in one process in random order (classes "
        "sharing a type name must keep their own fields); domains and tuples of 11-14 elements; (7) real HTTP loopback: "
        "two Agents with HttpCommunicationLayer on 127.0.0.1, harvested and generated messages posted on one for a "
        "computation of the other, compared after requests.post -> MPCHttpHandler -> from_repr -> Messaging queue "
        "(content, priority, sender, destination), every loopback run carrying inf / -inf / 2^62 / -1.5e300; (8) 3 (quick) / 10 "
        "(thorough) real multi-process runs `pydcop solve --mode process` (one spawned OS process per agent, HTTP between "
        "processes), DPOP's result judged against the brute-force optimum; non-trivial = object with a nested structure (relation, "
        "computation definition, dict or path table); distinct by hash(type, encoded form)")


def wire(obj):
    from pydcop.utils.simple_repr import simple_repr, from_repr

    return from_repr(json.loads(json.dumps(simple_repr(obj))))


def roundtrip_problem(obj, what):
    try:
        back = wire(obj)
    except Exception as e:
        return ("%s:encode-decode-exception:%s" % (what, type(e).__name__), "%s: wire round trip raised %s: %s" % (what, type(e).__name__, str(e)[:300]))
    d = deepeq.deep_diff(obj, back, what)
    if d:
        return ("%s:differs-after-wire" % what, d[:500])
    return None


# ------------------------------------------------------------------ (1)+(2) algorithm messages

def algo_case(rng, algo):
    case = c10.make_case(rng, algo)
    return case


def harvest_and_diff(case, algo, params, sseed, R):
    """run without wire (harvesting messages), then with wire; compare outcomes"""
    problems = []
    seen_types = {}

    def run(wire_mode, harvest):
        dcop = gen.build_dcop(case, rng_style(sseed))
        detsched.seed_algo_rngs(sseed)
        comps, _, _ = detsched.build_computations(algo, dcop, params=params)
        pool = detsched.Pool(sseed, wire=wire_mode)
        r2 = _r.Random(sseed * 7919 + 1)
        detsched.choose_bias(r2, pool, [c.name for c in comps])
        if harvest:
            def ob(kind, data):
                if kind == "send":
                    msg = data[2]
                    t = type(msg).__name__ + ":" + str(msg.type)
                    n = seen_types.get(t, 0)
                    if n < 6:
                        seen_types[t] = n + 1
                        p = roundtrip_problem(msg, "%s.%s" % (algo, t))
                        R.count("algorithm_messages_roundtripped")
                        R.bump("message_types", "%s.%s" % (algo, t))
                        if p:
                            problems.append(p)
            pool.observers.append(ob)
        for c in comps:
            pool.add(c)
        status = pool.run(500)
        asg = {c.name: c.current_value for c in comps if hasattr(c, "current_value") and hasattr(c, "variable")}
        return status, asg, pool

    try:
        s0, a0, p0 = run(False, True)
    except Exception as e:
        return problems, None
    if p0.errors:
        return problems, None  # a raising handler is another property's business
    try:
        s1, a1, p1 = run(True, False)
    except Exception as e:
        problems.append(("%s:wire-run-exception:%s" % (algo, type(e).__name__), "building/running %s through the wire raised %s" % (algo, e)))
        return problems, True
    R.count("differential_wire_runs")
    if p1.errors:
        e = p1.errors[0]
        problems.append(("%s:wire-run-handler-exception" % algo, "%s raises only when messages go through the wire format: step %s: %s" % (algo, e[0], e[1])))
    elif deepeq.deep_diff(a0, a1, "assignment") or p0.delivered != p1.delivered:
        problems.append(("%s:wire-changes-outcome" % algo, "%s: by reference -> %r after %d deliveries; through the wire -> %r after %d deliveries" % (
            algo, a0, p0.delivered, a1, p1.delivered)))
    return problems, True


def rng_style(seed):
    return ["dict", "expr", "dict"][seed % 3]


# ------------------------------------------------------------------ (3) computation definitions

def compdef_problems(case, rng, R):
    from importlib import import_module
    from pydcop.algorithms import AlgorithmDef, ComputationDef
    from pydcop.infrastructure.orchestrator import DeployMessage
    from pydcop.dcop.relations import constraint_from_str

    problems = []
    style = rng.choice(["dict", "expr"])
    dcop = gen.build_dcop(case, style)
    # replace one matrix constraint by an equivalent expression constraint when possible
    for gname, algo in (("pseudotree", "dpop"), ("factor_graph", "maxsum"), ("constraints_hypergraph", "dsa"), ("ordered_graph", "syncbb")):
        try:
            g = import_module("pydcop.computations_graph." + gname).build_computation_graph(dcop)
            ad = AlgorithmDef.build_with_default_param(algo, {}, mode=case["objective"])
        except Exception as e:
            problems.append(("%s:build-exception:%s" % (gname, type(e).__name__), str(e)[:200]))
            continue
        for node in g.nodes:
            cd = ComputationDef(node, ad)
            R.count("computation_defs_roundtripped")
            R.bump("graph_models", gname)
            p = roundtrip_problem(DeployMessage(cd), "DeployMessage[%s:%s]" % (gname, type(node).__name__))
            if p:
                problems.append(p)
                break
    return problems


# ------------------------------------------------------------------ (4) orchestration messages

def gen_value(rng, depth=0):
    k = rng.random()
    if depth > 2 or k < 0.35:
        return rng.choice([0, 1, -3, 2.5, "a", "v1", True, None, 10 ** 12])
    if k < 0.5:
        return [gen_value(rng, depth + 1) for _ in range(rng.randint(0, 3))]
    if k < 0.65:
        n = rng.randint(1, 3) if rng.random() < 0.8 else rng.randint(11, 14)  # positions 10.. sort differently as strings
        return tuple(gen_value(rng, depth + 1 if n < 10 else 3) for _ in range(n))
    if k < 0.85:
        return {rng.choice(["a", "b", "count", "x1"]): gen_value(rng, depth + 1) for _ in range(rng.randint(0, 3))}
    return [[k, gen_value(rng, depth + 1)] for k in range(rng.randint(1, 2))]


def orchestration_problems(rng, R):
    from pydcop.infrastructure import orchestrator as O
    from pydcop.infrastructure import discovery as D

    metrics = lambda: {"count_ext_msg": {"c1": rng.randint(0, 9)}, "size_ext_msg": {"c1": rng.randint(0, 99)},
                       "cycles": {"c1": rng.randint(0, 9)}, "activity_ratio": rng.random(), "last_cycle": gen_value(rng)}
    names = lambda: ["c%d" % i for i in range(rng.randint(0, 4))]
    cands = [
        ("SetMetricsModeMessage", lambda: O.SetMetricsModeMessage(rng.choice(["value_change", "cycle_change", "period"]), rng.choice([None, 0.5, 2]))),
        ("RunAgentMessage", lambda: O.RunAgentMessage(names())),
        ("ReplicateComputationsMessage", lambda: O.ReplicateComputationsMessage(rng.randint(1, 3))),
        ("ComputationReplicatedMessage", lambda: O.ComputationReplicatedMessage("a1", {c: ["a%d" % i for i in range(rng.randint(0, 3))] for c in names()}, metrics())),
        ("PauseMessage", lambda: O.PauseMessage(names())),
        ("ResumeMessage", lambda: O.ResumeMessage(names())),
        ("StopAgentMessage", lambda: O.StopAgentMessage()),
        ("AgentStoppedMessage", lambda: O.AgentStoppedMessage("a2", metrics())),
        ("ValueChangeMessage", lambda: O.ValueChangeMessage("a1", "c1", rng.choice([0, "R", 2.5, True]), rng.choice([None, 3, 4.5]), rng.randint(0, 9), metrics())),
        ("CycleChangeMessage", lambda: O.CycleChangeMessage("a1", "c1", rng.randint(0, 9), metrics())),
        ("MetricsMessage", lambda: O.MetricsMessage("a1", metrics())),
        ("ComputationFinishedMessage", lambda: O.ComputationFinishedMessage("a1", "c1")),
        ("AgentRemovedMessage", lambda: O.AgentRemovedMessage()),
        ("RepairDoneMessage", lambda: O.RepairDoneMessage("a1", names(), metrics())),
        ("RepairRunMessage", lambda: O.RepairRunMessage()),
        ("RepairReadyMessage", lambda: O.RepairReadyMessage("a1", names())),
        ("SetupRepairMessage", lambda: O.SetupRepairMessage({c: (["a1", "a2"][:rng.randint(1, 2)], {"n1": "a3"}, {"n2": ["a1", "a4"]}) for c in names()})),
        ("PublishAgentMessage", lambda: D.PublishAgentMessage("a1", rng.choice(["addr", ("127.0.0.1", 9000)]))),
        ("UnPublishAgentMessage", lambda: D.UnPublishAgentMessage("a1")),
        ("SubscribeAgentMessage", lambda: D.SubscribeAgentMessage("a1", rng.random() < 0.5)),
        ("PublishComputationMessage", lambda: D.PublishComputationMessage("c1", "a1", rng.choice([None, "addr", ("127.0.0.1", 9001)]))),
        ("UnPublishComputationMessage", lambda: D.UnPublishComputationMessage("c1", "a1")),
        ("SubscribeComputationMessage", lambda: D.SubscribeComputationMessage("c1", rng.random() < 0.5)),
        ("PublishReplicaMessage", lambda: D.PublishReplicaMessage("c1", "a1", rng.random() < 0.5)),
        ("SubscribeReplicaMessage", lambda: D.SubscribeReplicaMessage("c1", rng.random() < 0.5)),
        ("generic", lambda: O.MetricsMessage("a1", gen_value(rng))),
    ]
    problems = []
    for name, mk in cands:
        try:
            m = mk()
        except Exception as e:
            problems.append(("%s:construct:%s" % (name, type(e).__name__), str(e)[:200]))
            continue
        R.count("infrastructure_messages_roundtripped")
        R.bump("message_types", "infra." + name)
        p = roundtrip_problem(m, name)
        if p:
            key = p[0]
            if "dict keys" in p[1]:
                key = "%s:int-keyed-dict-becomes-str-keyed" % name
            problems.append((key, p[1]))
    return problems


# ------------------------------------------------------------------ (4b) every message_type class of the code base
_MT_CACHE = {}


def message_type_classes():
    """every class built by computations.message_type in the algorithm / infrastructure / replication modules,
    with its field list (read from the factory's closure) -> [(module, attribute, class, fields)]"""
    if _MT_CACHE:
        return _MT_CACHE["v"]
    import importlib
    import pkgutil
    import pydcop.algorithms
    from pydcop.infrastructure.computations import Message

    mods = ["pydcop.infrastructure.orchestrator", "pydcop.infrastructure.discovery", "pydcop.infrastructure.orchestratedagents",
            "pydcop.infrastructure.agents", "pydcop.replication.dist_ucs_hostingcosts", "pydcop.reparation.removal"]
    mods += ["pydcop.algorithms." + m.name for m in pkgutil.iter_modules(pydcop.algorithms.__path__)]
    out = []
    for mn in mods:
        try:
            mod = importlib.import_module(mn)
        except Exception:
            continue
        for attr, obj in sorted(vars(mod).items()):
            if isinstance(obj, type) and issubclass(obj, Message) and obj is not Message \
                    and getattr(obj, "__module__", None) == "pydcop.infrastructure.computations":
                init = obj.__dict__.get("__init__")
                cells = getattr(init, "__closure__", None) or ()
                fields = None
                for c in cells:
                    try:
                        v = c.cell_contents
                    except ValueError:
                        continue
                    if isinstance(v, list) and all(isinstance(x, str) for x in v):
                        fields = list(v)
                if fields is not None:
                    out.append((mn, attr, obj, fields))
    _MT_CACHE["v"] = out
    return out


def same_name_problems(rng, R):
    """instances of all message_type classes decoded in one process in random order: classes that share a message
    type name (e.g. the orchestrator's and NCBB's 'stop') must each come back with their own fields"""
    from pydcop.utils.simple_repr import simple_repr

    problems = []
    classes = list(message_type_classes())
    rng.shuffle(classes)
    by_name = {}
    for mn, attr, cls, fields in classes:
        try:
            m = cls(**{f: rng.choice([0, 1, "x", 2.5, True, None, [1, 2], "v3"]) for f in fields})
        except Exception as e:
            problems.append(("%s.%s:construct:%s" % (mn, attr, type(e).__name__), str(e)[:200]))
            continue
        by_name.setdefault(m.type, set()).add(tuple(fields))
        R.count("message_type_classes_roundtripped")
        try:
            back = wire(m)
        except Exception as e:
            problems.append(("message_type:%s:decode-exception:%s" % (m.type, type(e).__name__),
                             "%s.%s %r: %s" % (mn, attr, simple_repr(m), str(e)[:200])))
            continue
        if back.type != m.type or any(not hasattr(back, f) or getattr(back, f) != getattr(m, f) for f in fields) \
                or simple_repr(back) != simple_repr(m):
            problems.append(("message_type:%s:fields-differ-after-wire" % m.type, "%s.%s sent %r, decoded %r" % (mn, attr, simple_repr(m), simple_repr(back))))
    R.count("message_type_names_shared_by_several_classes", sum(1 for v in by_name.values() if len(v) > 1))
    return problems


# ------------------------------------------------------------------ (4c) real HTTP loopback
def _free_http_layer(rng):
    from pydcop.infrastructure.communication import HttpCommunicationLayer
    import os

    for attempt in range(40):
        port = 20000 + ((os.getpid() * 7 + rng.randrange(0, 20000)) % 30000)
        try:
            return HttpCommunicationLayer(("127.0.0.1", port), on_error="fail")
        except OSError:
            continue
    return None


def http_loopback_problems(rng, R):
    """two real Agents (threads not started) with real HttpCommunicationLayers on 127.0.0.1: messages harvested from
    algorithm runs, from the replication / discovery harness and every message_type class are posted on A for a
    computation hosted on B, travel through requests.post -> MPCHttpHandler -> from_repr -> B's Messaging queue, and
    are compared with what was sent (content, message type priority, sender, destination, order)"""
    from pydcop.infrastructure.agents import Agent

    problems = []
    ca, cb = _free_http_layer(rng), None
    if ca is None:
        R.bump("http", "no-free-port")
        return problems
    try:
        cb = _free_http_layer(rng)
        if cb is None:
            R.bump("http", "no-free-port")
            return problems
        A, B = Agent("pvA", ca), Agent("pvB", cb)
        A.discovery.register_computation("src", "pvA", A.address, publish=False)
        A.discovery.register_computation("sink", "pvB", B.address, publish=False)
        B.discovery.register_computation("sink", "pvB", B.address, publish=False)
        msgs = []
        for mn, attr, cls, fields in message_type_classes():
            try:
                msgs.append(cls(**{f: rng.choice([0, 1, "x", 2.5, True, None, [1, 2], "v3", float("inf"), float("-inf"), 2 ** 62, -1.5e300])
                                   for f in fields}))
            except Exception:
                pass
        rng.shuffle(msgs)
        msgs = msgs[:25]
        # every loopback run carries the non-finite and extreme numbers (bounds and costs of the algorithms' messages)
        for mn, attr, cls, fields in message_type_classes()[:40]:
            if len(fields) >= 2:
                try:
                    special = [float("inf"), float("-inf"), 2 ** 62, -1.5e300, [float("-inf"), 1], {"k": float("inf")}]
                    msgs.append(cls(**{f: special[j % len(special)] for j, f in enumerate(fields)}))
                    msgs.append(cls(**{f: special[(j + 1) % len(special)] for j, f in enumerate(fields)}))
                    break
                except Exception:
                    continue
        try:
            from pv.checks import c25

            msgs += list(c25.harvest_messages(rng))[:25]
        except Exception as e:
            R.bump("harvest_errors", "%s: %s" % (type(e).__name__, str(e)[:80]))
        # algorithm messages of one generated run
        algo = rng.choice(c10.ALGOS)
        case = algo_case(rng, algo)
        harvested = []
        try:
            dcop = gen.build_dcop(case, "dict")
            comps, _, _ = detsched.build_computations(algo, dcop, params=c10.make_params(rng, algo))
            pool = detsched.Pool(rng.randrange(1 << 30))
            pool.observers.append(lambda kind, data: harvested.append(data[2]) if kind == "send" and len(harvested) < 30 else None)
            for c in comps:
                pool.add(c)
            pool.run(200)
        except Exception:
            pass
        msgs += harvested
        # a message object posted again right after one of its fields has been changed (the synchronous mixin re-stamps the
        # cycle of a message it posts again): what arrives must be the object as it is when posted
        reposts = []
        for m in list(msgs):
            if len(reposts) >= 4:
                break
            keys = [k for k, v in getattr(m, "__dict__", {}).items() if isinstance(v, (int, str)) and not isinstance(v, bool) and k not in ("_msg_type",)]
            if keys:
                reposts.append((m, rng.choice(keys)))
        # a message of a few megabytes (a UTIL table over a wide separator, a large metrics dictionary)
        try:
            cls_big = [c_ for _, _, c_, f_ in message_type_classes() if len(f_) >= 1][0]
            f_big = [f_ for _, _, c_, f_ in message_type_classes() if c_ is cls_big][0]
            msgs.append(cls_big(**{f: ([float(i % 997) + 0.5 for i in range(170000)] if j == 0 else 1) for j, f in enumerate(f_big)}))
        except Exception:
            pass
        sent = []
        queue = [(m, None) for m in msgs]
        for m, key in reposts:
            queue.append((m, None))
            queue.append((m, key))
        for m, key in queue:
            if key is not None:
                old = m.__dict__[key]
                m.__dict__[key] = old + 1 if isinstance(old, int) else old + "_changed"
                R.count("http_reposts_of_a_changed_message")
            prio = rng.choice([5, 10, 15, 20])
            try:
                A._messaging.post_msg("src", "sink", m, prio)
            except Exception as e:
                if "Timeout" in type(e).__name__:
                    # the layer's 0.5 s wall-clock limit on a POST fired (loaded machine, large message): not a verdict; the
                    # message may still arrive, it is taken out of the queue so that the next comparisons stay aligned
                    R.count("http_posts_that_hit_the_0.5s_wall_clock_limit")
                    B._messaging.next_msg(5.0)
                    continue
                problems.append(("http:send-exception:%s:%s" % (type(m).__name__, type(e).__name__), "%r: %s" % (str(m)[:300], str(e)[:200])))
                continue
            full, _ = B._messaging.next_msg(2.0)
            R.count("http_messages_sent")
            if full is None:
                problems.append(("http:message-not-received:%s" % type(m).__name__, "%r posted on pvA never reached pvB's queue" % (m,)))
                continue
            if full.src_comp != "src" or full.dest_comp != "sink" or full.msg_type != prio:
                problems.append(("http:envelope-differs", "sent src->sink prio %r, received %s->%s prio %r" % (prio, full.src_comp, full.dest_comp, full.msg_type)))
            d = deepeq.deep_diff(m, full.msg, "http[%s]" % type(m).__name__)
            if d:
                problems.append(("http:%s:differs-after-http" % type(m).__name__, d[:400]))
        R.bump("http", "loopback-run")
    finally:
        for c in (ca, cb):
            try:
                if c is not None:
                    c.shutdown()
            except Exception:
                pass
    return problems


# ------------------------------------------------------------------ one real multi-process run

def process_mode_problems(rng, R):
    """`pydcop solve --mode process` as a child process: the orchestrator plus one OS process per agent (multiprocessing
    'spawn': the AgentDefs are pickled to the children), every message over HTTP on 127.0.0.1:9000+. Exact oracle: DPOP's
    result must be the brute-force optimum and its reported cost the harness' accounting. The ports are fixed by the
    runtime, so runs are serialised through a lock file; a run that cannot get the ports is skipped and counted."""
    import fcntl
    import os
    import shutil
    import subprocess
    import sys
    import tempfile
    import time
    from pydcop.dcop import yamldcop
    from pv import orch
    from pv.checks import c22

    problems = []
    case = gen.gen_case(rng, min_vars=3, max_vars=5, max_dom=3, palettes=("ties", "distinct", "float", "neg"), max_space=300, var_costs=False)
    na = len(case["variables"]) + rng.randint(0, 1)
    dcop, agents, algo_def, cg = orch.build_problem(case, "dpop", {}, na)
    d = tempfile.mkdtemp(prefix="pvc15pm_")
    lock = open("/tmp/pv_process_mode_ports.lock", "w")
    try:
        t0 = time.time()
        while True:
            try:
                fcntl.flock(lock, fcntl.LOCK_EX | fcntl.LOCK_NB)
                break
            except OSError:
                if time.time() - t0 > 90:
                    R.bump("process_mode", "skipped: ports in use by another run")
                    return problems
                time.sleep(0.5)
        import socket

        def listening():
            busy = []
            for port in range(9000, 9000 + na + 2):
                sk = socket.socket()
                sk.settimeout(0.2)
                try:
                    if sk.connect_ex(("127.0.0.1", port)) == 0:
                        busy.append(port)
                finally:
                    sk.close()
            return busy

        # agent processes of an earlier run may still be going down: nothing may listen on the ports the runtime will use
        t1 = time.time()
        while listening():
            if time.time() - t1 > 30:
                R.bump("process_mode", "skipped: ports 9000+ still served by another program")
                return problems
            time.sleep(0.5)
        with open(os.path.join(d, "dcop.yaml"), "w") as f:
            f.write(yamldcop.dcop_yaml(dcop))
        out = os.path.join(d, "result.json")
        code = "import sys; sys.path.insert(0, %r); from pydcop.dcop_cli import main; sys.argv = ['pydcop'] + sys.argv[1:]; main()" % common.REPO
        argv = [sys.executable, "-W", "ignore", "-c", code, "-t", "30", "--output", out, "solve", "--algo", "dpop", "-d", "oneagent",
                "--mode", "process", os.path.join(d, "dcop.yaml")]
        try:
            pr = subprocess.run(argv, cwd=d, stdout=subprocess.PIPE, stderr=subprocess.STDOUT, text=True, timeout=120)
        except subprocess.TimeoutExpired:
            R.bump("process_mode", "inconclusive: command still running after 120 s")
            return problems
        if "Address already in use" in pr.stdout:
            R.bump("process_mode", "skipped: ports in use by another program")
            return problems
        if not os.path.exists(out):
            problems.append(("process-mode:no-result", "pydcop solve --mode process exited with code %s without a result file: %s" % (pr.returncode, pr.stdout[-300:])))
            return problems
        res = json.load(open(out))
        t1 = time.time()
        while listening() and time.time() - t1 < 20:
            time.sleep(0.3)
    finally:
        try:
            fcntl.flock(lock, fcntl.LOCK_UN)
        except Exception:
            pass
        lock.close()
        shutil.rmtree(d, ignore_errors=True)
    R.bump("process_mode", "run judged")
    R.count("process_mode_messages_between_processes", res.get("msg_count") or 0)
    asg = res.get("assignment") or {}
    vm = gen.var_map(case)
    if res.get("status") != "FINISHED":
        problems.append(("process-mode:status", "status %r (assignment %r)" % (res.get("status"), asg)))
        return problems
    if sorted(asg) != sorted(vm) or any(asg[n] not in vm[n]["domain"] for n in asg):
        problems.append(("process-mode:assignment", "assignment %r for variables / domains %r; result %r; output tail %r" % (
            asg, {n: v["domain"] for n, v in vm.items()}, {k: res.get(k) for k in ("status", "cost", "violation", "msg_count", "cycle", "time")}, pr.stdout[-600:])))
        return problems
    got, best = gen.total_cost(case, asg), gen.brute_force(case)[0]
    if not gen.close(got, best, 1e-9):
        problems.append(("process-mode:not-optimal", "%s problem: assignment %r costs %r, optimum %r" % (case["objective"], asg, got, best)))
    viol, cost = c22.accounting(case, asg)
    if res.get("violation") != viol or not gen.close(res.get("cost"), cost, 1e-9):
        problems.append(("process-mode:reported-cost", "reported cost %r / violation %r, accounting gives %r / %r" % (res.get("cost"), res.get("violation"), cost, viol)))
    return problems


# ------------------------------------------------------------------ harvest from discovery / replication harness

def infra_harvest_problems(rng, R):
    problems = []
    try:
        from pv.checks import c25
    except Exception:
        return problems
    try:
        msgs = c25.harvest_messages(rng)
    except Exception as e:
        R.bump("harvest_errors", "%s: %s" % (type(e).__name__, str(e)[:80]))
        return problems
    seen = {}
    for m in msgs:
        t = type(m).__name__ + ":" + str(getattr(m, "type", ""))
        if getattr(m, "rep_msg_type", None):
            t += ":" + str(m.rep_msg_type)
        if seen.get(t, 0) >= 8:
            continue
        seen[t] = seen.get(t, 0) + 1
        R.count("infrastructure_messages_roundtripped")
        R.bump("message_types", "harvest." + t)
        p = roundtrip_problem(m, "harvest." + t)
        if p:
            problems.append(p)
    return problems


# ------------------------------------------------------------------ (5) AgentDef pickling

def agentdef_problems(rng, R):
    from pydcop.dcop.objects import AgentDef

    problems = []
    names = ["a%d" % i for i in range(4)]
    comps = ["c%d" % i for i in range(4)]
    kw = {}
    if rng.random() < 0.8:
        kw["default_hosting_cost"] = rng.choice([0, 5, 2.5])
    if rng.random() < 0.8:
        kw["hosting_costs"] = {c: rng.choice([0, 1, 10]) for c in comps if rng.random() < 0.5}
    if rng.random() < 0.8:
        kw["default_route"] = rng.choice([1, 3, 0.5])
    if rng.random() < 0.8:
        kw["routes"] = {n: rng.choice([0, 2, 7]) for n in names[1:] if rng.random() < 0.5}
    extra = {k: rng.choice([1, "x", 2.5, [1, 2]]) for k in ("capacity", "foo", "preference") if rng.random() < 0.6}
    kw.update(extra)
    a = AgentDef(names[0], **kw)
    for proto in (pickle.HIGHEST_PROTOCOL, 2):
        try:
            b = pickle.loads(pickle.dumps(a, protocol=proto))
        except Exception as e:
            problems.append(("AgentDef:pickle-exception:%s" % type(e).__name__, "pickle round trip of %r raised %s" % (kw, e)))
            continue
        R.count("agentdef_pickles_checked")
        try:
            if b.name != a.name:
                problems.append(("AgentDef:name", "%r != %r" % (b.name, a.name)))
            for k, v in extra.items():
                if getattr(b, k) != v:
                    problems.append(("AgentDef:extra-attribute", "%s: %r != %r" % (k, getattr(b, k), v)))
            for c in comps + ["unknown"]:
                if b.hosting_cost(c) != a.hosting_cost(c):
                    problems.append(("AgentDef:hosting-cost", "hosting_cost(%s): %r != %r" % (c, b.hosting_cost(c), a.hosting_cost(c))))
            for n in names + ["unknown_agent"]:
                if b.route(n) != a.route(n):
                    problems.append(("AgentDef:route", "route(%s): %r != %r" % (n, b.route(n), a.route(n))))
            if b.default_route != a.default_route:
                problems.append(("AgentDef:default-route", "%r != %r" % (b.default_route, a.default_route)))
        except Exception as e:
            problems.append(("AgentDef:accessor-exception-after-unpickling:%s" % type(e).__name__,
                             "after unpickling AgentDef(%r): %s: %s" % (kw, type(e).__name__, e)))
    return problems


def worker(job):
    R = common.WorkerResult()
    seed = job["seed"]
    for i in range(job["lo"], job["hi"]):
        rng = common.rng_for(seed, "C15", i)
        kind = i % 5
        problems = []
        sample = None
        nontrivial = True
        if kind in (0, 1):
            algo = c10.ALGOS[(i // 5) % len(c10.ALGOS)] if kind == 0 else rng.choice(c10.ALGOS)
            case = algo_case(rng, algo)
            params = c10.make_params(rng, algo)
            if algo in ("maxsum", "amaxsum"):
                params["noise"] = 0.0  # noise draws depend on object construction order
            if algo == "adsa":
                params["period"] = 0.1
            sseed = (seed * 1000003 + i * 101) & 0x7FFFFFFF
            problems, ran = harvest_and_diff(case, algo, params, sseed, R)
            sig = common.stable_hash(["algo", algo, gen.case_sig(case), params])
            sample = {"kind": "algorithm run", "algo": algo, "params": params, "case": case} if i % 25 == 0 else None
        elif kind == 2:
            if rng.random() < 0.25:
                # domains of 11-14 values (encoded as tuples with positions 10.. on the wire)
                case = gen.gen_case(rng, min_vars=2, max_vars=3, max_dom=14, palettes=("ties", "neg"), max_space=400, initial=True,
                                    str_domains=False, nary=False)
                for v in case["variables"][:1]:
                    if len(v["domain"]) < 11 and len(case["variables"]) <= 2:
                        pass
            else:
                case = gen.gen_case(rng, min_vars=1, max_vars=5, max_dom=4, palettes=("ties", "float", "neg", "hugefloat"), max_space=300, initial=True,
                                    binary_only=False)
                if rng.random() < 0.35:
                    gen.mix_domain_types(rng, case)
            # ordered graph / syncbb accept any constraints for graph building
            problems = compdef_problems(case, rng, R)
            sig = common.stable_hash(["compdef", gen.case_sig(case)])
            sample = {"kind": "computation definitions", "case": case} if i % 25 == 2 else None
        elif kind == 3:
            problems = same_name_problems(rng, R) + orchestration_problems(rng, R) + infra_harvest_problems(rng, R)
            if (i // 5) % 6 == 0:
                problems += http_loopback_problems(rng, R)
            if i % 200 == 3 and i < 2000:
                problems += process_mode_problems(rng, R)
            sig = common.stable_hash(["infra", i, seed])
        else:
            problems = agentdef_problems(rng, R)
            sig = common.stable_hash(["agentdef", i, seed])
        R.case(sig, nontrivial, sample=sample, max_samples=3)
        seen = set()
        for k, m in problems:
            if k in seen:
                continue
            seen.add(k)
            R.violation(k, m, {"index": i, "kind": kind})
    return R


def main(chk, tier, seed):
    chk.rule = RULE
    chk.assumptions = ["wire format = simple_repr -> json.dumps -> json.loads -> from_repr (what HttpCommunicationLayer and MPCHttpHandler do)",
                       "deep comparison is harness-side (pv/deepeq.py)"]
    n = 600 if tier == "quick" else 20000
    common.run_chunked(chk, "c15", n, nchunks=16 if tier == "quick" else 64, timeout=3000)
    chk.inconclusive_if(chk.counters.get("algorithm_messages_roundtripped", 0) < 300, "too few algorithm messages harvested")
    chk.inconclusive_if(chk.counters.get("computation_defs_roundtripped", 0) < 200, "too few computation definitions")
    chk.inconclusive_if(chk.counters.get("agentdef_pickles_checked", 0) < 50 and not chk.violations and not chk.known_seen, "AgentDef pickling hardly exercised")


def replay(payload):
    print("witness:", str(payload["witness"])[:500], "->", payload["what"][:500])
    print("cases are addressed by (seed, index): VERIF_SEED=%s ./check C15 %s" % (payload["seed"], payload["tier"]))
    print("VIOLATION property=C15 replay=(recorded witness)")
    return 1

"""C06 - best-response helpers return exactly the optimal values and cost (Engine C + Engine A for DSA)."""
import random as _r

from pv import common, gen, relgen, detsched

RULE = ("(1) generated calls of find_arg_optimal, find_optimal, optimal_cost_value and projection on relations of "
        "several kinds (matrix, python function, expression) with magnitudes small / float / beyond 2^31 / beyond "
        "2^63 (float) / +-inf / mixed / int8-int16-int32 numpy tables whose sums exceed the dtype, variables with and without own cost (dict, function, expression), min and max, "
        "all-equal tables and single-value domains; oracle = enumeration over the harness tables (sets compared as "
        "sets, costs exactly); (2) dsa (A/B/C), adsa and dsatuto run under the deterministic scheduler (every call of A-DSA's find_best_values is compared with the oracle set and cost): every "
        "value_selection made with a full neighbour view must pick a value of the oracle arg-best set (constraints + "
        "own cost); non-trivial = domain >= 2 and >= 2 distinct cost values (helpers) / >= 1 checked move (DSA runs); "
        "distinct by hash(call) or hash(instance, algo, schedule)")

MAGS = ("small", "float", "big", "huge", "inf", "mixed")


def argbest(pairs, mode):
    """pairs: [(value, cost)] -> (set of best values, best cost)"""
    best = None
    for v, c in pairs:
        if best is None or (c < best if mode == "min" else c > best):
            best = c
    return [v for v, c in pairs if c == best], best


def build_cost_var(rng, name, dom, costs, style):
    from pydcop.dcop.objects import Variable, VariableWithCostDict, VariableWithCostFunc, Domain
    from pydcop.utils.expressionfunction import ExpressionFunction

    d = Domain("d_" + name, "t", list(dom))
    if costs is None:
        return Variable(name, d)
    cd = dict(zip(dom, costs))
    if style == "expr" and all(isinstance(c, int) and abs(c) < 10 ** 6 for c in costs):
        expr = "{%s}[%s]" % (", ".join("%r: %r" % kv for kv in cd.items()), name)
        return VariableWithCostFunc(name, d, ExpressionFunction(expr))
    if style == "func":
        return VariableWithCostFunc(name, d, lambda v: cd[v])
    return VariableWithCostDict(name, d, cd)


def one_helper_case(rng, R):
    from pydcop.dcop import relations as REL

    mode = rng.choice(["min", "max"])
    mag = rng.choice(MAGS)
    which = rng.choice(["find_arg_optimal", "find_optimal", "find_optimal", "optimal_cost_value", "projection"])
    narrow = None
    if which == "find_optimal" and rng.random() < 0.15:
        # tables given as fixed-width numpy arrays (int8 / int16 / int32): each entry fits, sums of entries do not
        narrow = rng.choice(sorted(relgen.NARROW))
        mag = narrow
    witness = {"helper": which, "mode": mode, "mag": mag}
    try:
        if which == "find_arg_optimal":
            kind = rng.choice(["matrix", "unary_func", "func_pos", "func_kwargs"])
            spec = relgen.gen_spec(rng, kind, nvars=1, mag=mag, max_dom=4)
            if rng.random() < 0.1:
                v0 = next(iter(spec["table"].values()))
                spec["table"] = {k: v0 for k in spec["table"]}
            rel, cache = relgen.build_relation(spec)
            var = cache[spec["vars"][0][0]]
            pairs = [(val, relgen.spec_value(spec, {var.name: val})) for val in spec["vars"][0][1]]
            want_vals, want_cost = argbest(pairs, mode)
            witness["spec"] = spec
            got_vals, got_cost = REL.find_arg_optimal(var, rel, mode)
            ok = set(got_vals) == set(want_vals) and len(got_vals) == len(set(got_vals)) and relgen.same(got_cost, want_cost)
            nontrivial = len(pairs) >= 2 and len({repr(c) for _, c in pairs}) >= 2
            return which, ok, nontrivial, witness, "got (%r, %r) expected (%r, %r)" % (got_vals, got_cost, want_vals, want_cost)
        if which == "find_optimal":
            nother = rng.randint(0, 2)
            vars_ = relgen.draw_vars(rng, 1 + nother, 3)
            x = vars_[0]
            if rng.random() < 0.1:
                x[1] = x[1][:1]
            costs = None
            style = rng.choice(["dict", "func", "expr"])
            if rng.random() < 0.5:
                costs = [relgen.draw_value(rng, (mag if not narrow else "small") if style != "expr" else "small") for _ in x[1]]
            specs = []
            for ci in range(rng.randint(1, 3) if rng.random() < 0.85 else 0):  # sometimes a variable in no constraint at all
                others = [v for v in vars_[1:] if rng.random() < 0.7]
                sv = [x] + others
                rng.shuffle(sv)
                spec = {"kind": rng.choice(["matrix", "func_kwargs", "func_pos"]) if not narrow else "matrix", "name": "c%d" % ci, "mag": mag, "vars": sv}
                if narrow:
                    spec["dtype"] = relgen.NARROW_DTYPE[narrow]
                spec["table"] = {relgen.key_of(sv, a): relgen.draw_value(rng, mag) for a in relgen.all_assignments(sv)}
                specs.append(spec)
            if rng.random() < 0.08:
                for spec in specs:  # everything +inf / -inf: the helper must still answer
                    spec["table"] = {k: (float("inf") if mode == "min" else -float("inf")) for k in spec["table"]}
            asg = {v[0]: rng.choice(v[1]) for v in vars_[1:]}
            witness.update({"specs": specs, "x": x, "costs": costs, "cost_style": style, "assignment": dict(asg)})
            cache = {}
            cache[x[0]] = build_cost_var(rng, x[0], x[1], costs, style)
            # the other variables of the scopes may carry their own costs too: those are not part of x's local cost
            other_costs = {}
            for ov in vars_[1:]:
                if rng.random() < 0.5:
                    other_costs[ov[0]] = [relgen.draw_value(rng, "small") for _ in ov[1]]
                    cache[ov[0]] = build_cost_var(rng, ov[0], ov[1], other_costs[ov[0]], "dict")
            witness["other_variables_costs"] = other_costs
            rels = []
            for spec in specs:
                rel, cache = relgen.build_relation(spec, cache)
                rels.append(rel)
            pairs = []
            for val in x[1]:
                a = dict(asg)
                a[x[0]] = val
                c = 0  # plain left-to-right accumulation (3.12's sum() is compensated and would differ)
                for s_ in specs:
                    c = c + relgen.spec_value(s_, a)
                if costs is not None:
                    c = c + costs[x[1].index(val)]
                pairs.append((val, c))
            if any(c != c for _, c in pairs):  # inf - inf: no defined optimum
                return which, True, False, witness, "nan"
            want_vals, want_cost = argbest(pairs, mode)
            # float cancellation (huge magnitudes): if an exactly rounded summation ranks the values differently
            # the case has no order-independent answer -> not evaluated
            import math
            pairs2 = []
            for val in x[1]:
                a = dict(asg)
                a[x[0]] = val
                terms = [relgen.spec_value(s_, a) for s_ in specs] + ([costs[x[1].index(val)]] if costs is not None else [])
                try:
                    pairs2.append((val, math.fsum(terms)))
                except (OverflowError, ValueError):
                    pairs2.append((val, pairs[len(pairs2)][1]))
            if any(c != c for _, c in pairs2) or set(argbest(pairs2, mode)[0]) != set(want_vals):
                witness["skipped"] = "numerically ambiguous"
                return "find_optimal_numerically_ambiguous", True, False, witness, "ambiguous"
            got_vals, got_cost = REL.find_optimal(cache[x[0]], dict(asg), rels, mode)
            ok = got_vals is not None and set(got_vals) == set(want_vals) and len(got_vals) == len(set(got_vals)) \
                and relgen.same(got_cost, want_cost)
            nontrivial = len(pairs) >= 2 and len({repr(c) for _, c in pairs}) >= 2
            return which, ok, nontrivial, witness, "got (%r, %r) expected (%r, %r) [own cost: %s]" % (
                got_vals, got_cost, want_vals, want_cost, "yes" if costs else "no")
        if which == "optimal_cost_value":
            x = relgen.draw_vars(rng, 1, 4)[0]
            style = rng.choice(["dict", "func", "expr"])
            if rng.random() < 0.25:
                # a domain mixing value types (values that cannot be ordered with each other), as a YAML list may
                x = (x[0], rng.sample(["off", "on", 1, 2, 2.5, "a", 0], len(x[1])))
                style = rng.choice(["dict", "func"])
            costs = [relgen.draw_value(rng, mag if style != "expr" else "small") for _ in x[1]] if rng.random() < 0.8 else None
            if costs and len(costs) >= 2 and rng.random() < 0.4:
                costs[rng.randrange(1, len(costs))] = costs[0]  # tie between two values
            witness.update({"x": x, "costs": costs, "cost_style": style})
            var = build_cost_var(rng, x[0], x[1], costs, style)
            got_val, got_cost = REL.optimal_cost_value(var, mode)
            if costs is None:
                ok = got_val in x[1] and (got_cost is None or got_cost == 0)
                return which, ok, False, witness, "got (%r, %r) for a variable without cost" % (got_val, got_cost)
            want_vals, want_cost = argbest(list(zip(x[1], costs)), mode)
            ok = got_val in want_vals and relgen.same(got_cost, want_cost)
            return which, ok, len(set(map(repr, costs))) >= 2, witness, "got (%r, %r) expected one of %r with cost %r" % (
                got_val, got_cost, want_vals, want_cost)
        if which == "projection":
            pmag = rng.choice(["small", "float", "big", "inf"])
            spec = relgen.gen_spec(rng, "matrix", nvars=rng.randint(1, 3), mag=pmag, max_dom=3)
            witness["spec"] = spec
            witness["mag"] = pmag
            rel, cache = relgen.build_relation(spec)
            xn = rng.choice([v[0] for v in spec["vars"]])
            witness["project_on"] = xn
            proj = REL.projection(rel, cache[xn], mode)
            rest = [v for v in spec["vars"] if v[0] != xn]
            xdom = [v[1] for v in spec["vars"] if v[0] == xn][0]
            dims = [d.name for d in proj.dimensions]
            if sorted(dims) != sorted(v[0] for v in rest):
                return which, False, True, witness, "projection dimensions %r, expected %r" % (dims, [v[0] for v in rest])
            for a in relgen.all_assignments(rest):
                vals = []
                for xv in xdom:
                    b = dict(a)
                    b[xn] = xv
                    vals.append(relgen.spec_value(spec, b))
                want = min(vals) if mode == "min" else max(vals)
                got = proj(**a) if a else proj.get_value_for_assignment({})
                if not relgen.same(got, want):
                    return which, False, True, witness, "projection value at %r is %r, expected %r" % (a, got, want)
            return which, True, len(spec["vars"]) >= 2, witness, ""
    except Exception as e:
        import traceback

        witness["trace"] = traceback.format_exc()[-1500:]
        return which + ":exception:" + type(e).__name__, False, True, witness, "%s raised %s: %s" % (which, type(e).__name__, e)


# ------------------------------------------------------------------------------ DSA clause

def dsa_run(case, algo, params, sched_seed, bias=None, choices=None, budget=900):
    from pydcop.infrastructure.computations import VariableComputation

    dcop = gen.build_dcop(case, rng_style(sched_seed))
    detsched.seed_algo_rngs(sched_seed)
    comps, _, _ = detsched.build_computations(algo, dcop, params=params, mode=case["objective"])
    pool = detsched.Pool(sched_seed, choices=choices)
    r2 = _r.Random(sched_seed * 7919 + 1)
    if bias is None:
        detsched.choose_bias(r2, pool, [c.name for c in comps])
    else:
        pool.bias, pool.bias_target, pool.late_until = bias["bias"], bias.get("target"), bias.get("late_until", 0)
    nb = gen.neighbors(case)
    vm = gen.var_map(case)
    problems = []
    checked = [0]
    helper_calls = [0]
    last_msgs = {}
    orig = VariableComputation.value_selection

    def neighbour_view(comp):
        if algo == "dsa":
            return {k: v for k, v in comp.current_cycle.items() if k != comp.name}
        if algo == "adsa":
            return dict(comp.current_assignment)
        return dict(last_msgs.get(comp.name, {}))

    def hooked(self, val, cost=0):
        view = neighbour_view(self)
        mine = nb[self.name]
        if mine and set(view) >= mine and self.current_value is not None and val != self.current_value:
            asg = {k: view[k] for k in mine}
            pairs = []
            for cand in vm[self.name]["domain"]:
                a = dict(asg)
                a[self.name] = cand
                c = 0
                for k in case["constraints"]:
                    if self.name in k["scope"]:
                        c = c + gen.constraint_value(case, k, a)
                c += gen.var_cost(vm[self.name], cand)
                pairs.append((cand, c))
            best_vals, best = argbest(pairs, case["objective"])
            checked[0] += 1
            if val not in best_vals:
                problems.append(("move-to-non-optimal-value",
                                 "%s %s: %s moved to %r (local cost %r) but the optimal values are %r (cost %r) given %r" % (
                                     algo, case["objective"], self.name, val, dict(pairs).get(val), best_vals, best, asg)))
        return orig(self, val, cost)

    VariableComputation.value_selection = hooked
    helper_undo = None
    if algo == "adsa":
        # contract on A-DSA's own best-response helper: full arg-best set and its cost (constraints + own cost only)
        from pydcop.algorithms.adsa import ADsaComputation

        orig_fbv = ADsaComputation.find_best_values

        def fbv(self, assignment):
            got_vals, got_cost = orig_fbv(self, assignment)
            mine = nb[self.name]
            if set(assignment) >= mine:
                pairs = []
                for cand in vm[self.name]["domain"]:
                    a = {k: assignment[k] for k in mine}
                    a[self.name] = cand
                    c = 0
                    for k in case["constraints"]:
                        if self.name in k["scope"]:
                            c = c + gen.constraint_value(case, k, a)
                    c += gen.var_cost(vm[self.name], cand)
                    pairs.append((cand, c))
                best_vals, best = argbest(pairs, case["objective"])
                helper_calls[0] += 1
                if set(got_vals) != set(best_vals) or not relgen.same(got_cost, best):
                    problems.append(("find_best_values-wrong", "%s %s: %s.find_best_values(%r) == (%r, %r), oracle (%r, %r)" % (
                        algo, case["objective"], self.name, {k: assignment[k] for k in mine}, got_vals, got_cost, best_vals, best)))
            return got_vals, got_cost

        ADsaComputation.find_best_values = fbv
        helper_undo = (ADsaComputation, orig_fbv)
    try:
        if algo == "dsatuto":
            for c in comps:
                o = c.on_new_cycle

                def w(messages, cycle_id, _c=c, _o=o):
                    last_msgs[_c.name] = {s: m.value for s, (m, t) in messages.items()}
                    return _o(messages, cycle_id)

                c.on_new_cycle = w
        for c in comps:
            pool.add(c)
        status = pool.run(budget)
    finally:
        VariableComputation.value_selection = orig
        if helper_undo:
            helper_undo[0].find_best_values = helper_undo[1]
    return {"status": status, "problems": problems[:4], "checked": checked[0], "helper_calls": helper_calls[0], "trace": list(pool.trace),
            "exception": pool.errors[0][1] if pool.errors else None,
            "bias": {"bias": pool.bias, "target": pool.bias_target, "late_until": pool.late_until}}


def rng_style(seed):
    return ["dict", "func", "expr"][seed % 3]


def worker(job):
    R = common.WorkerResult()
    seed = job["seed"]
    for i in range(job["lo"], job["hi"]):
        rng = common.rng_for(seed, "C06", i)
        if i % 4 != 3:
            which, ok, nontrivial, witness, msg = one_helper_case(rng, R)
            R.case(common.stable_hash(witness), nontrivial, sample=witness if nontrivial else None)
            R.bump("helper_calls", which.split(":")[0])
            R.bump("magnitudes", witness.get("mag"))
            if not ok:
                key = which
                if which == "find_optimal" and witness.get("costs"):
                    key += ":own-cost"
                R.violation(key, msg, witness)
        else:
            algo = rng.choice(["dsa", "adsa", "dsatuto"])
            objective = "min" if algo == "dsatuto" else rng.choice(["min", "max"])
            case = gen.gen_case(rng, min_vars=2, max_vars=5, max_dom=3, palettes=("ties", "distinct", "neg"),
                                objective=objective, max_space=300, var_costs=True)
            if algo == "dsa":
                params = {"variant": rng.choice(["A", "B", "C"]), "probability": rng.choice([0.5, 0.9]), "stop_cycle": 12}
            elif algo == "adsa":
                params = {"variant": rng.choice(["A", "B", "C"]), "probability": rng.choice([0.5, 0.9]), "period": 0.1}
            else:
                params = {}
            sseed = (seed * 1000003 + i * 101) & 0x7FFFFFFF
            res = dsa_run(case, algo, params, sseed)
            R.case(common.stable_hash([gen.case_sig(case), algo, params, res["trace"]]), res["checked"] >= 1,
                   sample={"case": case, "algo": algo, "params": params, "moves_checked": res["checked"]} if res["checked"] else None)
            R.count("dsa_moves_checked", res["checked"])
            R.count("adsa_find_best_values_calls_checked", res.get("helper_calls", 0))
            R.bump("dsa_moves_checked_by_algo", algo, res["checked"])
            if res["exception"]:
                R.bump("observation_ended_by_exception", "%s: %s" % (algo, res["exception"][:60]))
            for p in res["problems"]:
                key = "%s:%s" % (algo, p[0])
                R.violation(key, p[1], {"case": case, "algo": algo, "params": params, "sched_seed": sseed,
                                        "bias": res["bias"], "choices": res["trace"]})
    return R


def main(chk, tier, seed):
    chk.rule = RULE
    chk.assumptions = ["oracle = enumeration over harness-owned tables", "integers are kept below 2^53 where the code stores them in float64 matrices (projection)"]
    n = 12000 if tier == "quick" else 480000
    common.run_chunked(chk, "c06", n, nchunks=16 if tier == "quick" else 64, timeout=3000)
    calls = chk.extra.get("helper_calls", {})
    for h in ("find_arg_optimal", "find_optimal", "optimal_cost_value", "projection"):
        chk.inconclusive_if(calls.get(h, 0) < 50, "helper %s called only %d times" % (h, calls.get(h, 0)))
    per = chk.extra.get("dsa_moves_checked_by_algo", {})
    for a in ("dsa", "adsa", "dsatuto"):
        chk.inconclusive_if(per.get(a, 0) < 20, "%s: only %d moves checked" % (a, per.get(a, 0)))


def replay(payload):
    w = payload["witness"]
    if "algo" in w:
        res = dsa_run(w["case"], w["algo"], w["params"], w["sched_seed"], bias=w["bias"], choices=list(w["choices"]))
        print("replay:", res["problems"][:2])
        bad = bool(res["problems"])
    else:
        print("replay of helper cases: re-run the tier with the recorded seed (cases are addressed by (seed, index)); witness:")
        print(str(w)[:1500])
        bad = True
    if bad:
        print("VIOLATION property=C06 replay=(replayed)")
        return 1
    return 0

"""C11 - relations evaluate and slice consistently with their definition (Engine C, several hash seeds)."""
import itertools

from pv import common, relgen

RULE = ("every relation kind (matrix, expression via constraint_from_str, table expression, NAryFunctionRelation over an "
        "ExpressionFunction without f_kwargs, python function with positional names / **kwargs / functools.partial, unary "
        "function, unary expression, unary boolean, zero-ary, neutral, conditional with shared or disjoint condition "
        "variables and both return_neutral settings) over <= 4 variables of domain <= 3, variable list in random order; "
        "calls: keyword, positional in r.dimensions order, assignment dict, assignment list; slices on every subset of "
        "variables in one step and in 2-3 steps in every order; oracle = harness table; the same case list is run under "
        "5 PYTHONHASHSEED values; non-trivial = arity >= 2; distinct by hash(case)")

HASHSEEDS = [0, 1, 2, 3, 12345]


def call_all_ways(rel, spec, asg, want, problems, where):
    names = [v[0] for v in spec["vars"]]
    dims = [d.name for d in rel.dimensions]
    ways = []
    if names:
        ways.append(("kwargs", lambda: rel(**asg)))
        ways.append(("positional", lambda: rel(*[asg[n] for n in dims])))
        ways.append(("dict", lambda: rel.get_value_for_assignment(dict(asg))))
        ways.append(("list", lambda: rel.get_value_for_assignment([asg[n] for n in dims])))
    else:
        ways.append(("noargs", lambda: rel()))
        ways.append(("dict", lambda: rel.get_value_for_assignment({})))
    for wname, f in ways:
        try:
            got = f()
        except Exception as e:
            problems.append(("call-%s:exception:%s" % (wname, type(e).__name__),
                             "%s: %s call with %r raised %s: %s" % (where, wname, asg, type(e).__name__, e)))
            continue
        if not relgen.same(got, want):
            problems.append(("call-%s:wrong-value" % wname, "%s: %s call with %r gave %r, definition says %r (dimensions %r)" % (
                where, wname, asg, got, want, dims)))


def check_sliced(sl, spec, fixed, problems, where):
    """sl must be a relation over exactly the remaining variables and agree with the definition on every completion"""
    rest = [v for v in spec["vars"] if v[0] not in fixed]
    try:
        dims = [d.name for d in sl.dimensions]
    except Exception as e:
        problems.append(("slice:dimensions-exception", "%s: .dimensions raised %s" % (where, e)))
        return
    if sorted(dims) != sorted(v[0] for v in rest) or len(dims) != len(set(dims)):
        problems.append(("slice:wrong-dimensions", "%s: sliced on %r -> dimensions %r, expected exactly %r" % (
            where, fixed, dims, [v[0] for v in rest])))
        return
    for comp in relgen.all_assignments(rest):
        full = dict(fixed)
        full.update(comp)
        want = relgen.spec_value(spec, full)
        try:
            got = sl(**comp) if comp else (sl() if not dims else None)
        except Exception as e:
            problems.append(("slice:call-exception:%s" % type(e).__name__, "%s: sliced on %r, call with %r raised %s: %s" % (
                where, fixed, comp, type(e).__name__, e)))
            return
        if not relgen.same(got, want):
            problems.append(("slice:wrong-value", "%s: sliced on %r then %r gave %r, definition says %r" % (
                where, fixed, comp, got, want)))
            return


def check_case(spec, rng):
    problems = []
    try:
        rel, cache = relgen.build_relation(spec)
    except Exception as e:
        return [("build:exception:%s" % type(e).__name__, "building %s raised %s: %s" % (spec["kind"], type(e).__name__, e))], 0
    where = spec["kind"]
    nchecks = 0
    asgs = list(relgen.all_assignments(spec["vars"]))
    for asg in asgs:
        call_all_ways(rel, spec, asg, relgen.spec_value(spec, asg), problems, where)
        nchecks += 1
        if len(problems) > 6:
            return problems, nchecks
    names = [v[0] for v in spec["vars"]]
    vm = {v[0]: v for v in spec["vars"]}
    # one-step slices on every non-empty subset, with one random value combination each (all combos when small)
    for k in range(0, len(names) + 1):
        for sub in itertools.combinations(names, k):
            combos = list(itertools.product(*[vm[n][1] for n in sub]))
            if len(combos) > 4:
                combos = rng.sample(combos, 4)
            for vals in combos:
                fixed = dict(zip(sub, vals))
                try:
                    sl = rel.slice(dict(fixed))
                except Exception as e:
                    problems.append(("slice:exception:%s" % type(e).__name__, "%s: slice(%r) raised %s: %s" % (
                        where, fixed, type(e).__name__, e)))
                    continue
                check_sliced(sl, spec, fixed, problems, where + " one-step")
                nchecks += 1
                if len(problems) > 6:
                    return problems, nchecks
    # multi-step slices: every ordered pair / triple of distinct variables
    for k in (2, 3):
        if len(names) < k:
            continue
        perms = list(itertools.permutations(names, k))
        if len(perms) > 8:
            perms = rng.sample(perms, 8)
        for perm in perms:
            fixed = {}
            cur = rel
            ok = True
            for n in perm:
                val = rng.choice(vm[n][1])
                try:
                    cur = cur.slice({n: val})
                except Exception as e:
                    problems.append(("slice-multistep:exception:%s" % type(e).__name__,
                                     "%s: after slicing on %r, slice({%r: %r}) raised %s: %s" % (
                                         where, fixed, n, val, type(e).__name__, e)))
                    ok = False
                    break
                fixed[n] = val
            if ok:
                check_sliced(cur, spec, fixed, problems, where + " %d-step" % k)
                nchecks += 1
            if len(problems) > 6:
                return problems, nchecks
    return problems, nchecks


def known_zeroary_case(spec, msg):
    """documented behaviour (return_neutral=False): once the condition is fully assigned and false, slice() returns
    a ZeroAryRelation although consequence variables remain. Recognised from the recorded fixed assignment."""
    import ast
    import re

    m = re.search(r"slic(?:ed|ing) on (\{.*?\})", msg)
    if not m:
        return False
    try:
        fixed = ast.literal_eval(m.group(1))
    except Exception:
        return False
    cn = [v[0] for v in spec["cond_vars"]]
    if not all(n in fixed for n in cn):
        return False
    return not spec["cond_table"][relgen.key_of(spec["cond_vars"], fixed)]


def make_spec(rng, i):
    kind = relgen.KINDS[i % len(relgen.KINDS)]
    mag = rng.choice(["small", "small", "float", "big"])
    spec = relgen.gen_spec(rng, kind, mag=mag, max_dom=3)
    # the order in which variables are given must not matter: shuffle it (tables are keyed by that order)
    if kind in ("matrix", "func_pos", "func_kwargs", "func_partial", "neutral", "nary_expr") and len(spec["vars"]) > 1 and "params" not in spec:
        vs = list(spec["vars"])
        rng.shuffle(vs)
        if "table" in spec:
            old = spec["vars"]
            spec["table"] = {relgen.key_of(vs, a): spec["table"][relgen.key_of(old, a)] for a in relgen.all_assignments(old)}
        spec["vars"] = vs
    return spec


def worker(job):
    import os

    R = common.WorkerResult()
    seed = job["seed"]
    hs = os.environ.get("PYTHONHASHSEED")
    for i in range(job["lo"], job["hi"]):
        rng = common.rng_for(seed, "C11", i)
        spec = make_spec(rng, i)
        problems, n = check_case(spec, rng)
        nontrivial = len(spec["vars"]) >= 2
        R.case(common.stable_hash(spec), nontrivial, sample={"spec": spec, "hashseed": hs} if nontrivial and i % 7 == 0 else None)
        R.count("calls_and_slices_checked", n)
        R.bump("kinds", spec["kind"])
        R.bump("hashseeds", str(hs))
        seen = set()
        for key, msg in problems:
            key = "%s:%s" % (spec["kind"], key)
            if spec["kind"] == "conditional" and not spec["return_neutral"] and key.split(":")[1].startswith("slice") \
                    and known_zeroary_case(spec, msg):
                key = "conditional:false-condition-slices-to-zeroary"
            if key in seen:
                continue
            seen.add(key)
            R.violation(key, msg + " [PYTHONHASHSEED=%s]" % hs, {"spec": spec, "hashseed": hs, "index": i})
    return R


def main(chk, tier, seed):
    chk.rule = RULE
    chk.assumptions = ["oracle = harness table / harness-side arithmetic of the same expression",
                       "per-process consistency is what is required under each hash seed"]
    n = 1040 if tier == "quick" else 52000
    jobs = []
    per = 4 if tier == "quick" else 13
    chunk = (n + per - 1) // per
    for hsd in HASHSEEDS:
        for c in range(per):
            lo, hi = c * chunk, min(n, (c + 1) * chunk)
            if lo < hi:
                jobs.append({"seed": seed, "tier": tier, "lo": lo, "hi": hi, "hashseed": hsd})
    results = common.run_workers("c11", jobs, timeout=3000)
    common.merge_results(chk, results)
    kinds = chk.extra.get("kinds", {})
    for k in relgen.KINDS:
        chk.inconclusive_if(kinds.get(k, 0) < 20, "relation kind %s exercised only %d times" % (k, kinds.get(k, 0)))
    chk.inconclusive_if(len(chk.extra.get("hashseeds", {})) < len(HASHSEEDS), "not every hash seed worker reported")


def replay(payload):
    import os
    import random

    w = payload["witness"]
    if str(os.environ.get("PYTHONHASHSEED")) != str(w["hashseed"]):
        print("note: recorded under PYTHONHASHSEED=%s (current %s)" % (w["hashseed"], os.environ.get("PYTHONHASHSEED")))
    problems, n = check_case(w["spec"], random.Random(1))
    print("replay:", problems[:3])
    if problems:
        print("VIOLATION property=C11 replay=(replayed)")
        return 1
    return 0

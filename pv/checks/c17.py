"""C17 - the pseudo-tree is a valid DFS forest for every constraint graph (Engine C)."""
import time

from pv import common, gen

RULE = ("constraint graphs: random / trees / cliques / cycles / disconnected unions / isolated variables / n-ary "
        "constraints (cliques in the primal graph) with 1-40 variables densely sampled, a fifth of them with external variables first or last in some constraint scopes, plus chains, stars, grids and "
        "caterpillars up to 1500 (quick) / 4000 (thorough) variables; oracle (harness graph algorithms): one node per "
        "variable, parent/children and pseudo_parent/pseudo_children mutually consistent, parent links acyclic with one "
        "root per connected component, every constraint-sharing pair is ancestor/descendant and directly linked by a "
        "tree or back edge, pseudo links only between ancestor/descendant, node.constraints == constraints on its "
        "variable, get_dfs_relations agrees with the links, no exception; non-trivial = >= 3 variables and >= 1 back "
        "edge or >= 100 variables; distinct by hash(graph)")


def light_case(names, scopes):
    """case with 2-value domains and all-zero tables (only structure matters)"""
    case = {"objective": "min", "variables": [{"name": n, "domain": [0, 1], "initial": None, "costs": None} for n in names],
            "constraints": [], "shape": "big", "palette": "zero"}
    for i, sc in enumerate(scopes):
        case["constraints"].append({"name": "c%05d" % i, "scope": list(sc), "table": None, "kind": "matrix"})
    return case


def build_dcop_structure(case):
    """DCOP whose constraints are cheap function relations (tables are irrelevant here)"""
    from pydcop.dcop.dcop import DCOP
    from pydcop.dcop.objects import Variable, Domain
    from pydcop.dcop.relations import NAryFunctionRelation

    dom = Domain("d", "t", [0, 1])
    vs = {v["name"]: Variable(v["name"], dom) for v in case["variables"]}
    if case.get("external"):
        # external (sensor) variables take part in some constraints but are not decision variables: they get no node
        from pydcop.dcop.objects import ExternalVariable

        ext = {n: ExternalVariable(n, dom, 0) for n in case["external"]}
        cons = {}
        for c in case["constraints"]:
            dims = [vs[n] for n in c["scope"]]
            for where, en in c.get("ext_scope", []):
                dims = [ext[en]] + dims if where == "first" else dims + [ext[en]]
            cons[c["name"]] = NAryFunctionRelation(lambda **kw: 0, dims, name=c["name"], f_kwargs=True)
        dcop = DCOP("c17", "min", "", {"d": dom}, dict(vs), cons, {})
        dcop.external_variables = ext
        return dcop
    dcop = DCOP("c17", "min")
    for v in vs.values():
        dcop.add_variable(v)
    for c in case["constraints"]:
        dcop.add_constraint(NAryFunctionRelation(lambda **kw: 0, [vs[n] for n in c["scope"]], name=c["name"], f_kwargs=True))
    return dcop


def check_tree(case, graph):
    from pydcop.computations_graph.pseudotree import get_dfs_relations

    P = []
    names = sorted(v["name"] for v in case["variables"])
    nodes = {n.name: n for n in graph.nodes}
    if sorted(nodes) != names or len(graph.nodes) != len(names):
        missing = sorted(set(names) - set(nodes))[:5]
        return [("nodes", "pseudo-tree has %d nodes for %d variables (missing e.g. %r)" % (len(graph.nodes), len(names), missing))]
    rel = {}
    for n, node in nodes.items():
        parent, pps, children, pcs = get_dfs_relations(node)
        rel[n] = (parent, sorted(pps), sorted(children), sorted(pcs))
        # links agree with get_dfs_relations (by construction) and are well formed
        for l in node.links:
            if l.source != n and l.target != n:
                P.append(("foreign-link", "node %s carries link %s -> %s" % (n, l.source, l.target)))
        if len(set(children)) != len(children) or len(set(pps)) != len(pps) or len(set(pcs)) != len(pcs):
            P.append(("duplicate-links", "node %s has duplicate links: children %r pseudo_parents %r pseudo_children %r" % (n, children, pps, pcs)))
    # mutual consistency
    for n, (parent, pps, children, pcs) in rel.items():
        if parent is not None and (parent not in rel or n not in rel[parent][2]):
            P.append(("parent-children-mismatch", "%s has parent %s but is not among its children" % (n, parent)))
        for c in children:
            if c not in rel or rel[c][0] != n:
                P.append(("parent-children-mismatch", "%s lists child %s whose parent is %r" % (n, c, rel.get(c, (None,))[0])))
        for pp in pps:
            if pp not in rel or n not in rel[pp][3]:
                P.append(("pseudo-links-mismatch", "%s has pseudo-parent %s which does not list it as pseudo-child" % (n, pp)))
        for pc in pcs:
            if pc not in rel or n not in rel[pc][1]:
                P.append(("pseudo-links-mismatch", "%s has pseudo-child %s which does not list it as pseudo-parent" % (n, pc)))
        if len(P) > 5:
            return P
    # acyclic parents, depth, roots (iterative)
    depth = {}
    for n in names:
        path = []
        cur = n
        seen = set()
        while cur is not None and cur not in depth:
            if cur in seen:
                return P + [("parent-cycle", "following parents from %s loops at %s" % (n, cur))]
            seen.add(cur)
            path.append(cur)
            cur = rel[cur][0]
        base = depth[cur] if cur is not None else -1
        for x in reversed(path):
            base += 1
            depth[x] = base
    comps = gen.components(case)
    roots = [n for n in names if rel[n][0] is None]
    if len(roots) != len(comps):
        P.append(("roots", "%d roots for %d connected components" % (len(roots), len(comps))))
    comp_of = {}
    for i, comp in enumerate(comps):
        for n in comp:
            comp_of[n] = i

    def root_of(n):
        while rel[n][0] is not None:
            n = rel[n][0]
        return n

    root_cache = {}
    for n in names:
        # walk up with caching
        stack = []
        cur = n
        while cur not in root_cache and rel[cur][0] is not None:
            stack.append(cur)
            cur = rel[cur][0]
        r = root_cache.get(cur, cur)
        root_cache[cur] = r
        for x in stack:
            root_cache[x] = r
    by_root = {}
    for n in names:
        by_root.setdefault(root_cache[n], set()).add(comp_of[n])
    for r, cs in by_root.items():
        if len(cs) != 1:
            P.append(("tree-spans-components", "tree rooted at %s spans %d components" % (r, len(cs))))

    def is_ancestor(a, d):
        """a is a proper ancestor of d"""
        if depth[a] >= depth[d]:
            return False
        cur = d
        while cur is not None and depth[cur] > depth[a]:
            cur = rel[cur][0]
        return cur == a

    # every constraint-sharing pair: ancestor/descendant and directly linked by a tree edge or back edge
    pairs = set()
    for c in case["constraints"]:
        sc = sorted(set(c["scope"]))
        for i, a in enumerate(sc):
            for b in sc[i + 1:]:
                pairs.add((a, b))
    back_edges = 0
    for a, b in pairs:
        if is_ancestor(a, b):
            up, down = a, b
        elif is_ancestor(b, a):
            up, down = b, a
        else:
            P.append(("not-ancestor-descendant", "%s and %s share a constraint but neither is an ancestor of the other" % (a, b)))
            if len(P) > 5:
                return P
            continue
        tree_edge = rel[down][0] == up
        back_edge = up in rel[down][1] and down in rel[up][3]
        if back_edge:
            back_edges += 1
        if not (tree_edge or back_edge):
            P.append(("missing-edge", "%s (ancestor) and %s share a constraint but are linked neither by a tree edge nor by a back edge" % (up, down)))
        if tree_edge and back_edge:
            P.append(("double-edge", "%s / %s linked both as parent and pseudo-parent" % (up, down)))
        if len(P) > 5:
            return P
    # pseudo links only between ancestor/descendant that share a constraint
    for n, (parent, pps, children, pcs) in rel.items():
        for pp in pps:
            if not is_ancestor(pp, n):
                P.append(("pseudo-parent-not-ancestor", "%s has pseudo-parent %s which is not one of its ancestors" % (n, pp)))
            elif tuple(sorted((n, pp))) not in pairs:
                P.append(("pseudo-edge-without-constraint", "%s / %s pseudo-linked without sharing a constraint" % (n, pp)))
        if parent is not None and tuple(sorted((n, parent))) not in pairs:
            P.append(("tree-edge-without-constraint", "%s has parent %s without sharing a constraint" % (n, parent)))
        if len(P) > 5:
            return P
    # constraints carried by each node
    cons_of = {n: [] for n in names}
    for c in case["constraints"]:
        for n in set(c["scope"]):
            cons_of[n].append(c["name"])
    for n, node in nodes.items():
        got = sorted(c.name for c in node.constraints)
        if got != sorted(cons_of[n]):
            P.append(("node-constraints", "node %s carries constraints %r, expected %r" % (n, got[:6], sorted(cons_of[n])[:6])))
            if len(P) > 5:
                return P
    return P, back_edges


def make_small(rng):
    n = rng.randint(1, 40)
    names = ["n%03d" % i for i in range(n)]
    rng.shuffle(names)
    shape = rng.choice(gen.SHAPES)
    scopes = gen.gen_structure(rng, names, shape)
    if n >= 3 and rng.random() < 0.5:
        for _ in range(rng.randint(1, 3)):
            scopes.append(rng.sample(names, rng.randint(3, min(4, n))))
    for nm in names:
        if rng.random() < 0.1:
            scopes.append([nm])
    if scopes and rng.random() < 0.2:
        scopes.append(list(rng.choice(scopes)))
    case = light_case(names, scopes)
    if scopes and rng.random() < 0.2:
        # one or two external variables (named before / after the decision variables) in some constraint scopes
        case["external"] = rng.sample(["a_ext", "zz_ext", "e0"], rng.randint(1, 2))
        for c in case["constraints"]:
            if rng.random() < 0.4:
                c["ext_scope"] = [(rng.choice(["first", "last"]), rng.choice(case["external"]))]
        shape += "+external"
    return case, shape


def make_big(rng, size):
    names = ["b%05d" % i for i in range(size)]
    kind = rng.choice(["chain", "chain", "star", "grid", "caterpillar", "chain-shuffled"])
    if size >= 2000 and size % 1000 != 0:
        kind = "caterpillar"  # deep AND branching: more than 1000 levels with a leaf at every level
    if kind == "chain":
        scopes = [[names[i], names[i + 1]] for i in range(size - 1)]
    elif kind == "chain-shuffled":
        order = list(names)
        rng.shuffle(order)
        scopes = [[order[i], order[i + 1]] for i in range(size - 1)]
    elif kind == "star":
        scopes = [[names[0], n] for n in names[1:]]
    elif kind == "grid":
        w = max(2, int(size ** 0.5))
        scopes = []
        for i in range(size):
            if (i + 1) % w and i + 1 < size:
                scopes.append([names[i], names[i + 1]])
            if i + w < size:
                scopes.append([names[i], names[i + w]])
    else:  # caterpillar: a long spine with one leaf per spine node
        half = size // 2
        scopes = [[names[i], names[i + 1]] for i in range(half - 1)] + [[names[i], names[half + i]] for i in range(size - half)]
        if rng.random() < 0.25:
            scopes = scopes[half - 1:] + scopes[:half - 1]  # leaf constraints declared first
    return light_case(names, scopes), kind


def run_case(case):
    from pydcop.computations_graph import pseudotree

    t0 = time.time()
    try:
        dcop = build_dcop_structure(case)
        graph = pseudotree.build_computation_graph(dcop)
    except RecursionError as e:
        return [("exception:RecursionError", "build_computation_graph raised RecursionError on %d variables (%s)" % (len(case["variables"]), case["shape"]))], 0, time.time() - t0
    except Exception as e:
        return [("exception:%s" % type(e).__name__, "build_computation_graph raised %s: %s" % (type(e).__name__, str(e)[:200]))], 0, time.time() - t0
    out = check_tree(case, graph)
    if isinstance(out, tuple):
        P, back = out
    else:
        P, back = out, 0
    return P, back, time.time() - t0


def worker(job):
    R = common.WorkerResult()
    seed = job["seed"]
    for i in range(job["lo"], job["hi"]):
        rng = common.rng_for(seed, "C17", i)
        if i in job.get("big", {}) or str(i) in job.get("big", {}):
            size = job["big"].get(i, job["big"].get(str(i)))
            case, shape = make_big(rng, size)
        else:
            case, shape = make_small(rng)
        case["shape"] = shape
        P, back, dt = run_case(case)
        n = len(case["variables"])
        nontrivial = (n >= 3 and back >= 1) or n >= 100
        sig = common.stable_hash([[v["name"] for v in case["variables"]], [c["scope"] for c in case["constraints"]]])
        R.case(sig, nontrivial, sample={"variables": n, "shape": shape, "constraints": len(case["constraints"]), "back_edges": back,
                                        "scopes_head": [c["scope"] for c in case["constraints"][:8]]} if nontrivial and (i % 11 == 0 or n >= 100) else None,
               max_samples=4)
        R.count("trees_checked")
        R.count("back_edges_seen", back)
        R.bump("sizes", "1-40" if n <= 40 else str(n))
        R.bump("shapes", shape)
        seen = set()
        for k, m in P:
            if k in seen:
                continue
            seen.add(k)
            w = {"shape": shape, "variables": n, "index": i}
            if n <= 40:
                w["scopes"] = [c["scope"] for c in case["constraints"]]
                w["names"] = [v["name"] for v in case["variables"]]
            if k == "exception:RecursionError":
                k += ":deep-tree"
            R.violation(k, m, w)
    return R


def main(chk, tier, seed):
    chk.rule = RULE
    chk.assumptions = ["only the structure matters: constraints are zero-valued function relations", "sizes up to 4000"]
    n = 900 if tier == "quick" else 48000
    bigs = [120, 300, 600, 1000, 1500, 2400, 2400, 2400] if tier == "quick" else [120, 300, 450, 520, 600, 800, 1000, 1500, 2000, 3000, 4000, 2500, 700, 900]
    nbig = len(bigs) * (2 if tier == "quick" else 3)
    total = n + nbig
    big = {}
    for j in range(nbig):
        big[n + j] = bigs[j % len(bigs)]
    # big cases one per job so that they run in parallel
    jobs = []
    per = (n + 11) // 12
    for c in range(12):
        lo, hi = c * per, min(n, (c + 1) * per)
        if lo < hi:
            jobs.append({"seed": seed, "tier": tier, "lo": lo, "hi": hi, "big": {}})
    for idx, size in big.items():
        jobs.append({"seed": seed, "tier": tier, "lo": idx, "hi": idx + 1, "big": {str(idx): size}})
    common.merge_results(chk, common.run_workers("c17", jobs, timeout=3000))
    chk.inconclusive_if(chk.counters.get("back_edges_seen", 0) < 100, "too few back edges observed")
    sizes = chk.extra.get("sizes", {})
    chk.inconclusive_if(not any(k != "1-40" for k in sizes), "no large instance ran")


def replay(payload):
    w = payload["witness"]
    if "scopes" in w:
        case = light_case(w["names"], w["scopes"])
        case["shape"] = w["shape"]
        P, back, dt = run_case(case)
    else:
        import random

        case, shape = make_big(random.Random(1), w["variables"])
        case["shape"] = shape
        P, back, dt = run_case(case)
    print("replay:", P[:3])
    if P:
        print("VIOLATION property=C17 replay=(replayed)")
        return 1
    return 0

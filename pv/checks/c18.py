"""C18 - agent messaging delivers each message once, by priority, FIFO per sender (Engine B, real threads)."""
import random as _r
import threading
import time

from pv import common, threaded

RULE = ("histories on a real Agent thread (InProcessCommunicationLayer) hosting 2-3 recording computations and a control "
        "computation, plus a second real agent whose Messaging forwards through the communication layer: 2-4 producer "
        "threads post 20-120 uniquely numbered messages each to random destinations (named like variables: d0, B2, Beta, A1, x_3 ...) with types in {10,15,20} or {10,15,19.5,19.999998,20}, locally "
        "or through the remote agent (one history in eight over a real HttpCommunicationLayer on 127.0.0.1); in 60% of the histories the agent also runs a periodic action; once idle, 1-3 tail "
        "messages are posted immediately before clean_shutdown(); one destination is registered late, by the agent thread itself or (a third) by another thread (earlier posts go "
        "through the retry path); in half the histories the agent thread starts only after a backlog exists; then "
        "clean_shutdown()+join(); perturbation: switch interval 1e-5, random sleeps around post_msg / next_msg / handlers "
        "(thorough: sys.monitoring LINE yield injection); offline oracle over the recorded logical-clock history: "
        "exactly-once, right destination, per (sender, destination, type) FIFO, priority at every dequeue, deferred "
        "messages after registration in order, everything posted before shutdown handled; non-trivial = >= 2 producers, "
        ">= 1 deferred message and >= 1 dequeue with a mixed-type backlog; distinct by hash(global handle order)")

TYPES = [10, 15, 20]


def run_history(seed, lines=False):
    from pydcop.infrastructure.agents import Agent
    from pydcop.infrastructure.communication import InProcessCommunicationLayer, Messaging
    from pydcop.infrastructure.computations import MessagePassingComputation, Message, register
    from pydcop.infrastructure import communication as comm_mod, agents as agents_mod, discovery as disc_mod

    rng = _r.Random(seed)
    clk = threaded.Clock()
    per = threaded.Perturb(seed, lines=lines)

    class Rec(MessagePassingComputation):
        @register("m")
        def on_m(self, sender, msg, t):
            per.jitter()
            clk.rec("handle", self.name, sender, msg.content, threading.current_thread().name)

    late_name = "late"
    # one history in eight uses the real HTTP layer on 127.0.0.1: remote posts then reach A's Messaging from its http thread
    http = rng.random() < 0.125
    layers = []
    if http:
        la, lb = threaded.free_http_layer(rng), threaded.free_http_layer(rng)
        if la is None or lb is None:
            http = False
            for l in (la, lb):
                if l is not None:
                    l.shutdown()
        else:
            layers = [la, lb]
    A = Agent("A", layers[0] if http else InProcessCommunicationLayer())
    B = Agent("B", layers[1] if http else InProcessCommunicationLayer())
    # computation names are arbitrary identifiers (variables are often called B2, A1, x_3 ...)
    dests = rng.sample(["d0", "d1", "d2", "B2", "Beta", "A1", "x_3", "v10"], rng.randint(2, 3))
    # message types are numbers, not necessarily whole ones (the runtime itself re-injects stored messages at 19 - k*1e-6);
    # the HTTP layer carries the type as an integer header, so fractional types stay within in-process histories
    TYPES = [10, 15, 20] if http or rng.random() < 0.5 else [10, 15, 19.5, 19.999998, 20]
    # few keys: a quarter of the histories use one message type and one sender name per producer, so that every pair of
    # messages of a producer to one destination is ordered by the statement (any overtaking is then observable)
    few_keys = rng.random() < 0.25
    if few_keys:
        TYPES = [rng.choice([10, 20])]
    comps = {}
    for d in dests:
        comps[d] = Rec(d)
        A.add_computation(comps[d], publish=False)
        # already running when the first message arrives: holding messages across start is C19's subject
        comps[d].start()
    late = Rec(late_name)

    # in a third of the histories the late computation is added by the thread that asks for it (not the agent's thread),
    # while the agent thread is running; it is started first so that it handles its messages as soon as it is hosted
    foreign_add = rng.random() < 0.33
    reg_lock = threading.Lock()
    reg_done = [False]

    def do_register():
        with reg_lock:
            if reg_done[0]:
                return
            reg_done[0] = True
        clk.rec("register_begin", late_name)
        if foreign_add:
            late.start()
            A.add_computation(late, publish=False)
        else:
            A.add_computation(late, publish=False)
            A.run([late_name])
        clk.rec("register_end", late_name)

    class Ctl(MessagePassingComputation):
        @register("register")
        def on_register(self, sender, msg, t):
            do_register()

    ctl = Ctl("ctl")
    A.add_computation(ctl, publish=False)
    ctl.start()
    # B knows where A's computations are (as a subscribed discovery would)
    for d in dests + ["ctl"]:
        B.discovery.register_computation(d, "A", A.address, publish=False)
    nprod = rng.randint(2, 4)
    producers = []
    senders = {}
    for p in range(nprod):
        remote = rng.random() < 0.4
        names = ["s%d_%d" % (p, j) for j in range(1 if few_keys else rng.randint(1, 2))]
        for n in names:
            # sender computations only need to be known to discovery of the posting side
            (B if remote else A).discovery.register_computation(n, "B" if remote else "A", (B if remote else A).address, publish=False)
        producers.append({"id": p, "remote": remote, "senders": names, "count": rng.randint(20, 120)})
    # wrap Messaging seams of A
    mA = A._messaging
    orig_next = mA.next_msg

    def next_msg(timeout=0):
        per.jitter()
        tcall = clk.rec("dequeue_call")
        full, t = orig_next(timeout)
        if full is not None and getattr(full.msg, "type", None) == "m":
            clk.rec("dequeue", full.msg.content, full.msg_type, tcall)
        per.jitter()
        return full, t

    mA.next_msg = next_msg
    orig_reg_cb = mA._on_computation_registration

    def reg_cb(evt, computation, agent):
        r = orig_reg_cb(evt, computation, agent)
        per.jitter()
        time.sleep(rng.random() * 0.002)  # injected delay between the flush of the kept messages and what follows it
        return r

    mA._on_computation_registration = reg_cb
    # injected delay at the discovery lookup every post starts with, for the late destination only: it sits between the
    # critical sections of the retry path (kept message taken up again -> queued) and of concurrent newer posts
    orig_lookup = A.discovery.computation_agent

    def lookup(computation):
        if computation == late_name:
            per.jitter()
            if rng_lookup.random() < 0.3:
                time.sleep(rng_lookup.random() * 0.003)
        return orig_lookup(computation)

    rng_lookup = _r.Random(seed + 17)
    A.discovery.computation_agent = lookup
    # the same at the entry of a retry post (a kept message on its way back into the queue)
    orig_post = mA.post_msg

    def post_msg(*a, **kw):
        if kw.get("_is_retry") and rng_lookup.random() < 0.7:
            time.sleep(rng_lookup.random() * 0.005)
        return orig_post(*a, **kw)

    mA.post_msg = post_msg
    start_late = rng.random() < 0.5
    register_after = rng.randint(5, 60)
    stop_flag = threading.Event()
    mid_counter = [0]
    mid_lock = threading.Lock()

    def producer(pr):
        prng = _r.Random(seed * 31 + pr["id"])
        messaging = B._messaging if pr["remote"] else A._messaging
        for k in range(pr["count"]):
            with mid_lock:
                mid_counter[0] += 1
                mid = mid_counter[0]
            src = prng.choice(pr["senders"])
            dest = prng.choice(dests + [late_name, late_name])
            typ = prng.choice(TYPES)
            if pr["remote"] and dest == late_name:
                # the remote agent learns about the late computation only through discovery: keep remote posts to known ones
                dest = prng.choice(dests)
            clk.rec("post_call", mid, src, dest, typ, pr["id"])
            per.jitter()
            try:
                messaging.post_msg(src, dest, Message("m", mid), typ)
                clk.rec("post_return", mid)
            except Exception as e:
                clk.rec("post_error", mid, "%s: %s" % (type(e).__name__, e))
            per.jitter()
            if pr["id"] == 0 and k == register_after:
                clk.rec("register_request")
                if foreign_add:
                    do_register()
                else:
                    A._messaging.post_msg("s0_0", "ctl", Message("register", None), 10)

    A.discovery.register_computation("tail", "A", A.address, publish=False)
    periodic = rng.random() < 0.6
    if periodic:
        prng2 = _r.Random(seed + 5)

        def periodic_cb():
            clk.rec("periodic")
            time.sleep(prng2.random() * 0.01)

        A.set_periodic_action(rng.choice([0.0, 0.003, 0.02]), periodic_cb)
    per.start(modules=(comm_mod, agents_mod, disc_mod))
    threads = [threading.Thread(target=producer, args=(pr,), name="producer_%d" % pr["id"]) for pr in producers]
    errors = []
    try:
        if not start_late:
            A.start()
        B._running = True
        for t in threads:
            t.start()
        if start_late:
            time.sleep(rng.random() * 0.01)
            A.start()
        for t in threads:
            t.join(30)
        # registration may not have been requested if producer 0 had few messages
        if not any(e[1] == "register_request" for e in clk.events):
            clk.rec("register_request")
            if foreign_add:
                do_register()
            else:
                A._messaging.post_msg(producers[0]["senders"][0], "ctl", Message("register", None), 10)
        # let the agent take the registration into account before shutting down (bounded wait on logical progress)
        deadline = time.time() + 10
        while time.time() < deadline and not any(e[1] == "register_end" for e in clk.events):
            time.sleep(0.005)
        # tail: the agent is idle (polling or running its periodic action) when the last messages and the shutdown arrive
        ntotal = sum(pr["count"] for pr in producers)
        while time.time() < deadline and sum(1 for e in clk.events if e[1] == "handle") < ntotal:
            time.sleep(0.005)
        time.sleep(rng.random() * 0.07)
        for k in range(rng.randint(1, 3)):
            with mid_lock:
                mid_counter[0] += 1
                mid = mid_counter[0]
            dest, typ = rng.choice(dests + [late_name]), rng.choice(TYPES)
            clk.rec("post_call", mid, "tail", dest, typ, -1)
            A._messaging.post_msg("tail", dest, Message("m", mid), typ)
            clk.rec("post_return", mid)
        clk.rec("shutdown_call")
        A.clean_shutdown()
        A.join()
        clk.rec("agent_thread_exited")
    except Exception as e:
        import traceback

        errors.append(traceback.format_exc()[-800:])
    finally:
        per.stop()
        try:
            A.stop()
        except Exception:
            pass
        for l in layers:
            try:
                l.shutdown()
            except Exception:
                pass
    return {"events": clk.events, "errors": errors, "dests": dests + [late_name], "producers": producers,
            "injected": per.injected, "line_events": per.line_events, "start_late": start_late, "periodic": periodic, "http": http, "foreign_add": foreign_add, "few_keys": few_keys}


def analyse(h):
    P = []
    ev = h["events"]
    if h["errors"]:
        return [("harness:exception", h["errors"][0])], {}
    post, ret, handle, deq = {}, {}, {}, []
    t_shutdown = None
    t_reg_end = None
    t_exit = None
    for e in ev:
        t, kind = e[0], e[1]
        if kind == "post_call":
            post[e[2]] = {"t": t, "src": e[3], "dest": e[4], "type": e[5], "prod": e[6]}
        elif kind == "post_return":
            ret[e[2]] = t
        elif kind == "post_error":
            P.append(("post-raised", "post of message %s raised %s" % (e[2], e[3])))
        elif kind == "handle":
            handle.setdefault(e[4], []).append((t, e[2], e[3], e[5]))
        elif kind == "dequeue":
            deq.append((t, e[2], e[3], e[4]))
        elif kind == "shutdown_call":
            t_shutdown = t
        elif kind == "register_end":
            t_reg_end = t
        elif kind == "agent_thread_exited":
            t_exit = t
    if t_exit is None:
        return [("harness:agent-thread-did-not-exit", "join() did not return")], {}
    # 1. exactly once, right destination, agent thread
    for mid, p in post.items():
        hs = handle.get(mid, [])
        if mid in ret and ret[mid] < t_shutdown:
            if p["dest"] == "late" and t_reg_end is None:
                continue
            if len(hs) == 0:
                P.append(("message-lost", "message %s (%s -> %s, type %s) posted before shutdown was never handled" % (mid, p["src"], p["dest"], p["type"])))
        if len(hs) > 1:
            P.append(("message-handled-twice", "message %s handled %d times" % (mid, len(hs))))
        for t, dest, sender, thread in hs:
            if dest != p["dest"] or sender != p["src"]:
                P.append(("wrong-destination-or-sender", "message %s posted %s -> %s handled by %s from %s" % (mid, p["src"], p["dest"], dest, sender)))
            if thread != "thread_A":
                P.append(("handled-on-foreign-thread", "message %s handled on thread %s" % (mid, thread)))
            if t > t_exit:
                P.append(("handled-after-exit", "message %s" % mid))
    # 2. FIFO per (sender, destination, type)
    groups = {}
    for mid, p in sorted(post.items(), key=lambda kv: kv[1]["t"]):
        if mid in handle:
            groups.setdefault((p["src"], p["dest"], p["type"]), []).append(mid)
    for key, mids in groups.items():
        order = sorted(mids, key=lambda m: handle[m][0][0])
        if order != mids:
            # first inversion
            inv = next((a, b) for a, b in zip(order, order[1:]) if post[a]["t"] > post[b]["t"])
            k = "fifo-broken-for-deferred-messages" if key[1] == "late" else "fifo-broken"
            P.append((k, "sender %s -> %s type %s: posted in order %r but handled %r (e.g. %s before %s)" % (
                key[0], key[1], key[2], mids[:12], order[:12], inv[0], inv[1])))
    # 3. priority at dequeue: no strictly smaller type available in the queue when the dequeue call started
    enq = {}
    for mid, p in post.items():
        if mid in ret and (p["dest"] != "late" or (t_reg_end is not None and p["t"] > t_reg_end)):
            enq[mid] = ret[mid]
    deq_t = {m: t for (t, m, typ, tcall) in deq}
    mixed = 0
    pending = sorted(enq.items(), key=lambda kv: kv[1])
    for (t, m, typ, tcall) in deq:
        if m not in enq:
            continue
        typ = post[m]["type"]  # the type given by the poster (client boundary), not the one the queue entry carries
        avail_types = set()
        for m2, te in pending:
            if te >= tcall:
                break
            if deq_t.get(m2, 10 ** 18) > t:
                avail_types.add(post[m2]["type"])
                if post[m2]["type"] < typ:
                    P.append(("priority-inversion", "dequeued message %s of type %s while message %s of type %s had been queued before the dequeue call" % (
                        m, typ, m2, post[m2]["type"])))
                    break
        if len(avail_types) >= 2:
            mixed += 1
        if len(P) > 8:
            break
    deferred = sum(1 for mid, p in post.items() if p["dest"] == "late" and t_reg_end is not None and p["t"] < t_reg_end and mid in handle)
    order_sig = common.stable_hash([e[2] for e in ev if e[1] == "handle"][:400] if False else [(e[4]) for e in ev if e[1] == "handle"])
    stats = {"posted": len(post), "handled": sum(len(v) for v in handle.values()), "deferred": deferred, "mixed_backlog_dequeues": mixed,
             "producers": len(h["producers"]), "order_sig": order_sig, "injected": h["injected"], "line_events": h["line_events"],
             "http": 1 if h.get("http") else 0, "foreign_add": 1 if h.get("foreign_add") else 0, "few_keys": 1 if h.get("few_keys") else 0}
    return P, stats


def worker(job):
    R = common.WorkerResult()
    seed = job["seed"]
    lines = job.get("lines", False)
    for i in range(job["lo"], job["hi"]):
        hseed = (seed * 1000003 + i * 13) & 0x7FFFFFFF
        h = run_history(hseed, lines=lines and i % 2 == 0)
        P, stats = analyse(h)
        nontrivial = stats.get("producers", 0) >= 2 and stats.get("deferred", 0) >= 1 and stats.get("mixed_backlog_dequeues", 0) >= 1
        R.case(stats.get("order_sig", str(i)), nontrivial,
               sample={"history_seed": hseed, "stats": {k: v for k, v in stats.items() if k != "order_sig"},
                       "first_events": [list(e) for e in h["events"][:25]]} if nontrivial and i % 8 == 0 else None)
        R.count("histories_over_http", stats.get("http", 0))
        R.count("histories_with_late_computation_added_from_a_foreign_thread", stats.get("foreign_add", 0))
        R.count("histories_with_one_type_and_one_sender_per_producer", stats.get("few_keys", 0))
        for k in ("posted", "handled", "deferred", "mixed_backlog_dequeues", "injected", "line_events"):
            R.count("messages_" + k if k in ("posted", "handled", "deferred") else k, stats.get(k, 0))
        seen = set()
        for k, m in P:
            if k in seen:
                continue
            seen.add(k)
            R.violation(k, m, {"history_seed": hseed, "lines": lines})
    return R


def main(chk, tier, seed):
    chk.rule = RULE
    chk.assumptions = ["verdicts on the logical clock only; a wall-clock watchdog firing is inconclusive",
                       "a sender computation is used by one producer thread (computations are single threaded)"]
    n = 96 if tier == "quick" else 2400
    common.run_chunked(chk, "c18", n, nchunks=16 if tier == "quick" else 48, job_extra={"lines": tier == "thorough"}, timeout=600 if tier == "quick" else 3000)
    chk.inconclusive_if(chk.counters.get("messages_deferred", 0) < 20, "late registration hardly exercised")
    chk.inconclusive_if(chk.counters.get("mixed_backlog_dequeues", 0) < 20, "priority ordering hardly observable (no mixed backlog)")


def replay(payload):
    w = payload["witness"]
    bad = 0
    for attempt in range(20):
        h = run_history(w["history_seed"], lines=w.get("lines", False))
        P, stats = analyse(h)
        if P:
            print("replay attempt %d:" % attempt, P[:2])
            bad += 1
            break
    if bad:
        print("VIOLATION property=C18 replay=(replayed)")
        return 1
    print("not reproduced in 20 attempts (thread schedules are not replayable exactly)")
    return 0

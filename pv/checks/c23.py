"""C23 - distribution methods return valid mappings or declare impossibility (Engine C)."""
import os
import shutil
import tempfile

from pv import common, gen, distgen

RULE = ("computation graphs of the four models built from generated DCOPs (1-5 variables), harness footprint / "
        "communication-load functions, 1-4 agents with capacities ample / exact fit / too small / mixed, default hosting "
        "cost 0 or not, per-computation hosting costs incl. 0, symmetric routes, with and without must_host / host_with "
        "hints; each of oneagent, adhoc, heur_comhost, gh_cgdp, ilp_fgdp and ilp_compref_fg (factor graphs), ilp_compref, oilp_cgdp called "
        "through module.distribute(); and the `distribute` command run in-process on a YAML file for dsa/maxsum graphs; "
        "ILP models are solved by PuLP's bundled CBC (GLPK_CMD rebound by the harness: glpsol is not installed); oracle: "
        "outcome is a valid mapping (every computation once, declared agents, must_host honoured by adhoc, cost-0 pins "
        "honoured by the pinning methods, footprint <= capacity for all but oneagent) or ImpossibleDistributionException "
        "or TimeoutError / status FAIL / TIMEOUT; non-trivial = >= 2 agents and >= 3 computations; distinct by "
        "hash(instance, method, api)")


def api_run(inst, method):
    from importlib import import_module
    from pydcop.distribution.objects import ImpossibleDistributionException

    P = []
    try:
        mod = import_module("pydcop.distribution." + method)
    except Exception as e:
        return [("%s:module-import:%s" % (method, type(e).__name__), "importing pydcop.distribution.%s raised %s: %s" % (method, type(e).__name__, e))], "import-error"
    dcop, cg, agents, cm, cl, hints = distgen.build(inst)
    names = [n.name for n in cg.nodes]
    try:
        with distgen.quiet():
            dist = mod.distribute(cg, agents, hints=hints, computation_memory=cm, communication_load=cl)
    except ImpossibleDistributionException:
        return P, "impossible"
    except TimeoutError:
        return P, "timeout"
    except Exception as e:
        import traceback

        tb = traceback.format_exc()
        if "glpsol" in str(e) or ("PulpSolverError" in type(e).__name__ and "Error while executing" not in str(e)):
            # the solver binary itself is missing / cannot be started: an environment fact. "Error while executing" means the
            # solver ran and rejected the model the method built (e.g. repeated variable names): judged below
            return P, "solver-unavailable"
        inner = [l for l in tb.splitlines() if l.strip().startswith("File ")][-1].strip()
        P.append(("%s:exception:%s" % (method, type(e).__name__), "%s.distribute raised %s: %s (%s)" % (method, type(e).__name__, str(e)[:200], inner)))
        return P, "exception"
    try:
        mapping = {a: list(cs) for a, cs in dist.mapping().items()}
    except Exception as e:
        return [("%s:not-a-distribution" % method, "returned %r" % (dist,))], "exception"
    for k, m in distgen.mapping_problems(inst, method, mapping, names):
        P.append(("%s:%s" % (method, k), m + " [zero_mode=%s capacities=%s]" % (inst["zero_mode"], inst["capkind"])))
    return P, "mapping"


def cli_run(inst, method, algo):
    """the `distribute` command, in-process, on a YAML file written by the harness"""
    import argparse
    import yaml
    from pydcop.commands import distribute as cmd
    from pydcop.dcop import yamldcop
    from pydcop.dcop.objects import AgentDef

    P = []
    case = inst["case"]
    dcop = gen.build_dcop(case)
    agents = [AgentDef(d["name"], capacity=d["capacity"] * 100, default_hosting_cost=d["default_hosting_cost"],
                       hosting_costs=dict(d["hosting_costs"]), default_route=inst["default_route"], routes=dict(d["routes"]))
              for d in inst["agents"]]
    dcop.add_agents(agents)
    d = tempfile.mkdtemp(prefix="pvc23_")
    try:
        path = os.path.join(d, "dcop.yaml")
        with open(path, "w") as f:
            f.write(yamldcop.dcop_yaml(dcop))
        args = argparse.Namespace(dcop_files=[path], distribution=method, cost=None, algo=algo, graph=None, output=None)
        out = None
        try:
            with distgen.quiet() as buf:
                try:
                    cmd.run_cmd(args)
                except SystemExit as se:
                    code = se.code
                out = buf.getvalue()
        except Exception as e:
            import traceback

            tb = traceback.format_exc()
            inner = [l for l in tb.splitlines() if l.strip().startswith("File ")][-1].strip()
            if "PulpSolverError" in type(e).__name__ and "Error while executing" not in str(e):
                return P, "solver-unavailable"
            P.append(("cli:%s:exception:%s" % (method, type(e).__name__), "distribute command (%s, %s) raised %s: %s (%s)" % (
                method, algo, type(e).__name__, str(e)[:200], inner)))
            return P, "exception"
        try:
            res = yaml.safe_load(out)
            if not isinstance(res, dict) or "status" not in res:
                raise ValueError("no status")
        except Exception as e:
            P.append(("harness:cli-output-unparsable", "output %r" % out[-300:]))
            return P, "exception"
        st = res.get("status")
        if st in ("FAIL", "TIMEOUT"):
            return P, "impossible" if st == "FAIL" else "timeout"
        if st != "SUCCESS":
            P.append(("cli:%s:status" % method, "status %r" % st))
            return P, "exception"
        mapping = res.get("distribution") or {}
        import importlib

        m = importlib.import_module("pydcop.algorithms." + algo)
        gm = importlib.import_module("pydcop.computations_graph." + m.GRAPH_TYPE)
        cg = gm.build_computation_graph(dcop)
        names = [n.name for n in cg.nodes]
        inst2 = dict(inst)
        from pydcop.algorithms import load_algorithm_module

        am = load_algorithm_module(algo)
        inst2["footprints"] = {n.name: am.computation_memory(n) for n in cg.nodes}
        inst2["agents"] = [dict(dd, capacity=dd["capacity"] * 100) for dd in inst["agents"]]
        inst2["hints"] = {"must_host": {}, "host_with": {}}
        for k, msg in distgen.mapping_problems(inst2, method, mapping, names):
            P.append(("cli:%s:%s" % (method, k), msg))
        return P, "mapping"
    finally:
        shutil.rmtree(d, ignore_errors=True)


def worker(job):
    R = common.WorkerResult()
    seed = job["seed"]
    cbc = distgen.install_cbc()
    for m, err in cbc.items():
        if err:
            R.bump("ilp_modules_not_importable", "%s: %s" % (m, err[:80]))
    for i in range(job["lo"], job["hi"]):
        rng = common.rng_for(seed, "C23", i)
        method = distgen.METHODS[i % len(distgen.METHODS)]
        use_cli = (i // len(distgen.METHODS)) % 4 == 3 and method != "ilp_compref_fg"  # not offered by the command
        if use_cli:
            algo = rng.choice(["dsa", "maxsum"]) if method != "ilp_fgdp" else "maxsum"
            inst = distgen.gen_instance(rng, graph={"dsa": "constraints_hypergraph", "maxsum": "factor_graph"}[algo])
            P, outcome = cli_run(inst, method, algo)
            api = "cli"
        else:
            graph = "factor_graph" if method in ("ilp_fgdp", "ilp_compref_fg") else None
            if method == "adhoc" and rng.random() < 0.5:
                # adhoc has a dedicated placement for SECP-like models (a factor hosted with one of its variables)
                inst = distgen.gen_instance(rng, graph="factor_graph", secp_hint_p=0.9, hint_bias=rng.random() < 0.8)
            else:
                # the pinning methods get more instances with computations pinned by a cost of 0 and tight capacities
                inst = distgen.gen_instance(rng, graph=graph, pin_bias=method in distgen.PINNING and rng.random() < 0.6,
                                            hint_bias=method == "adhoc" and rng.random() < 0.7)
            P, outcome = api_run(inst, method)
            if method == "adhoc":
                # adhoc places in a random order and retries: the same instance is distributed several times, every outcome
                # is judged (a valid mapping or a declared impossibility each time)
                for _rep in range(5):
                    P2, outcome2 = api_run(inst, method)
                    P += P2
                    R.count("adhoc_repeated_distributions")
                    R.bump("outcomes", "%s:%s" % (method, outcome2))
            api = "api"
        ncomp = len(inst["footprints"])
        nontrivial = len(inst["agents"]) >= 2 and ncomp >= 3
        R.case(common.stable_hash([inst, method, api]), nontrivial,
               sample={"method": method, "api": api, "outcome": outcome, "graph": inst["graph"], "agents": inst["agents"],
                       "footprints": inst["footprints"], "hints": inst["hints"]} if nontrivial and i % 90 == 0 else None)
        R.bump("outcomes", "%s:%s" % (method, outcome))
        R.bump("apis", api)
        R.bump("graphs", inst["graph"])
        seen = set()
        for k, m in P:
            if k in seen:
                continue
            seen.add(k)
            R.violation(k, m, {"instance": inst, "method": method, "api": api})
    return R


def main(chk, tier, seed):
    chk.rule = RULE
    chk.assumptions = ["CBC substituted for the missing glpsol binary (solver-unavailable outcomes are environment facts, not verdicts)",
                       "at most one agent with hosting cost 0 per computation when explicit zeros are generated"]
    n = 1050 if tier == "quick" else 14000
    common.run_chunked(chk, "c23", n, nchunks=16 if tier == "quick" else 64, timeout=3000)
    out = chk.extra.get("outcomes", {})
    for m in distgen.METHODS:
        got = sum(v for k, v in out.items() if k.startswith(m + ":") and k.split(":")[1] in ("mapping", "impossible"))
        chk.inconclusive_if(got < 10 and not chk.violations, "method %s decided only %d cases" % (m, got))


def replay(payload):
    w = payload["witness"]
    distgen.install_cbc()
    if w["api"] == "cli":
        print("cli cases are replayed through the tier: VERIF_SEED=%s ./check C23 %s" % (payload["seed"], payload["tier"]))
        print("VIOLATION property=C23 replay=(recorded witness)")
        return 1
    P, outcome = api_run(w["instance"], w["method"])
    print("replay:", outcome, P[:3])
    if P:
        print("VIOLATION property=C23 replay=(replayed)")
        return 1
    return 0

"""C19 - messages held across start or pause keep their original order (real Agent + Messaging, stepped
deterministically by the harness acting as the agent thread)."""
from pv import common

RULE = ("seeded histories (5-60 operations) over a recording computation T hosted on a real Agent with its real "
        "Messaging priority queue, the agent thread being replaced by the harness loop next_msg()/_handle_message(): "
        "recv(sender, id) from 1-3 senders, start, pause, resume, post(id) by T to a sink computation (a third of the posts repeat the content of a recent post), step (handle "
        "one queued message); at the end T is started/resumed and the queue drained; oracle on the recorded history: "
        "every received id handled exactly once, per-sender handling order == reception order, a message held "
        "(received while not started / paused) is handled before any message received after it was first held and "
        "held messages keep their relative order, every post reaches the sink exactly once in posting order; "
        "non-trivial = >= 2 messages held at once and >= 1 post made while paused; distinct by hash(history)")


def gen_history(rng):
    n = rng.randint(5, 60)
    senders = ["s%d" % i for i in range(rng.randint(1, 3))]
    ops = []
    started = False
    paused = False
    mid = 0
    for _ in range(n):
        r = rng.random()
        if r < 0.38:
            mid += 1
            ops.append(("recv", rng.choice(senders), mid))
        elif r < 0.55:
            ops.append(("step", rng.randint(1, 3)))
        elif r < 0.63 and not started:
            ops.append(("start",))
            started = True
        elif r < 0.75:
            ops.append(("pause",))
            paused = True
        elif r < 0.87:
            ops.append(("resume",))
            paused = False
        else:
            prev = [o[1] for o in ops if o[0] == "post"]
            if prev and rng.random() < 0.35:
                # same content as an earlier post (e.g. the same value sent again): still one delivery per post
                ops.append(("post", rng.choice(prev[-3:])))
            else:
                mid += 1
                ops.append(("post", mid))
    return {"senders": senders, "ops": ops}


def run_history(hist):
    from pydcop.infrastructure.agents import Agent
    from pydcop.infrastructure.communication import InProcessCommunicationLayer, Messaging
    from pydcop.infrastructure.computations import MessagePassingComputation, Message, register

    log = []  # (kind, ...)
    clock = [0]

    def tick():
        clock[0] += 1
        return clock[0]

    class Rec(MessagePassingComputation):
        def __init__(self, name):
            super().__init__(name)

        @register("m")
        def on_m(self, sender, msg, t):
            log.append(("handle", self.name, sender, msg.content, tick()))

    agent = Agent("agt", InProcessCommunicationLayer())
    agent._running = True  # the harness plays the agent thread
    T, K = Rec("T"), Rec("K")
    agent.add_computation(T, publish=False)
    agent.add_computation(K, publish=False)
    for s in hist["senders"]:
        agent.add_computation(Rec(s), publish=False)
    K.start()
    orig_on_message = T.on_message

    def on_message(sender, msg, t):
        held = not (T.is_running and not T.is_paused)
        if held:
            log.append(("held", "T", sender, msg.content, tick()))
        return orig_on_message(sender, msg, t)

    T.on_message = on_message
    messaging = agent._messaging
    orig_post = messaging.post_msg

    def post_msg(src, dest, msg, msg_type=None, on_error=None):
        if src == "T" and dest == "K":
            log.append(("sender_call", msg.content, tick()))
        return orig_post(src, dest, msg, msg_type, on_error)

    messaging.post_msg = post_msg
    # computations captured the bound method at add_computation time: rebind the sender of T
    T._msg_sender = post_msg

    def step(k=1):
        for _ in range(k):
            full, t = messaging.next_msg(0)
            if full is None:
                return False
            sender, dest, msg, _ = full
            agent._handle_message(sender, dest, msg, t)
        return True

    errors = []
    try:
        for op in hist["ops"]:
            if op[0] == "recv":
                log.append(("recv", op[1], op[2], tick()))
                orig_post(op[1], "T", Message("m", op[2]))
            elif op[0] == "step":
                step(op[1])
            elif op[0] == "start":
                if not T.is_running:
                    log.append(("start", tick()))
                    agent.run(["T"])
            elif op[0] == "pause":
                log.append(("pause", tick()))
                agent.pause_computations(["T"])
            elif op[0] == "resume":
                log.append(("resume", tick()))
                agent.unpause_computations(["T"])
            elif op[0] == "post":
                log.append(("post", op[1], tick()))
                T.post_msg("K", Message("m", op[1]))
        # final: make sure T runs and drain everything
        if not T.is_running:
            log.append(("start", tick()))
            agent.run(["T"])
        log.append(("resume", tick()))
        agent.unpause_computations(["T"])
        for _ in range(10000):
            if not step():
                break
    except Exception as e:
        import traceback

        errors.append("%s: %s | %s" % (type(e).__name__, e, traceback.format_exc()[-600:]))
    finally:
        try:
            agent._comm.shutdown()
        except Exception:
            pass
    return log, errors


def analyse(hist, log, errors):
    P = []
    if errors:
        P.append(("exception", "history raised %s" % errors[0]))
        return P, {}
    recv = [(e[2], e[1], e[3]) for e in log if e[0] == "recv"]  # (id, sender, time)
    handled = [(e[3], e[2], e[4]) for e in log if e[0] == "handle" and e[1] == "T"]
    held_first = {}
    for e in log:
        if e[0] == "held" and e[3] not in held_first:
            held_first[e[3]] = e[4]
    hid = [h[0] for h in handled]
    # A1 exactly once
    for mid, s, t in recv:
        c = hid.count(mid)
        if c == 0:
            P.append(("lost-message", "message %s from %s was never handled" % (mid, s)))
        elif c > 1:
            P.append(("duplicated-message", "message %s from %s handled %d times" % (mid, s, c)))
    if P:
        return P, {}
    pos = {mid: i for i, mid in enumerate(hid)}
    # A2 per-sender FIFO
    by_sender = {}
    for mid, s, t in recv:
        by_sender.setdefault(s, []).append(mid)
    for s, ids in by_sender.items():
        got = sorted(ids, key=lambda m: pos[m])
        if got != ids:
            P.append(("per-sender-order", "messages of %s received in order %r but handled in order %r" % (s, ids, got)))
    # A3 held messages keep their relative order and precede messages received after they were first held
    held_ids = sorted(held_first, key=lambda m: held_first[m])
    got = sorted(held_ids, key=lambda m: pos[m])
    if got != held_ids:
        P.append(("held-messages-reordered", "messages first held in order %r were handled in order %r" % (held_ids, got)))
    recv_time = {mid: t for mid, s, t in recv}
    for h in held_ids:
        for mid, s, t in recv:
            if t > held_first[h] and pos[mid] < pos[h]:
                P.append(("newer-message-overtakes-held", "message %s (received after %s was held) was handled before it" % (mid, h)))
                break
    # A4 posts
    posts = [e[1] for e in log if e[0] == "post"]
    calls = [e[1] for e in log if e[0] == "sender_call"]
    sink = [e[3] for e in log if e[0] == "handle" and e[1] == "K"]
    if sorted(calls) != sorted(posts):
        P.append(("post-lost-or-duplicated", "posted %r, message_sender called with %r" % (posts, calls)))
    elif calls != posts:
        P.append(("posts-sent-out-of-order", "posted in order %r, message_sender called in order %r" % (posts, calls)))
    if sorted(sink) != sorted(posts):
        P.append(("post-not-delivered-once", "posted %r, sink received %r" % (posts, sink)))
    elif sink != posts:
        P.append(("posts-delivered-out-of-order", "posted in order %r, sink received %r" % (posts, sink)))
    # stats
    paused_posts = 0
    paused = False
    max_held = 0
    cur = 0
    for e in log:
        if e[0] == "pause":
            paused = True
        elif e[0] == "resume":
            paused = False
        elif e[0] == "post" and paused:
            paused_posts += 1
    stats = {"held": len(held_ids), "paused_posts": paused_posts, "handled": len(handled)}
    return P, stats


def worker(job):
    R = common.WorkerResult()
    seed = job["seed"]
    for i in range(job["lo"], job["hi"]):
        rng = common.rng_for(seed, "C19", i)
        hist = gen_history(rng)
        log, errors = run_history(hist)
        P, stats = analyse(hist, log, errors)
        nontrivial = stats.get("held", 0) >= 2 and stats.get("paused_posts", 0) >= 1
        R.case(common.stable_hash(hist), nontrivial, sample={"history": hist, "stats": stats} if nontrivial and i % 40 == 0 else None)
        R.count("messages_handled", stats.get("handled", 0))
        R.count("messages_held", stats.get("held", 0))
        R.count("posts_while_paused", stats.get("paused_posts", 0))
        seen = set()
        for k, m in P:
            if k in seen:
                continue
            seen.add(k)
            R.violation(k, m, {"history": hist})
    return R


def main(chk, tier, seed):
    chk.rule = RULE
    chk.assumptions = ["the harness loop stands for the agent thread (same calls: next_msg, _handle_message, run, pause_computations)"]
    n = 9000 if tier == "quick" else 500000
    common.run_chunked(chk, "c19", n, nchunks=16 if tier == "quick" else 64, timeout=3000)
    chk.inconclusive_if(chk.counters.get("messages_held", 0) < 500, "too few held messages")
    chk.inconclusive_if(chk.counters.get("posts_while_paused", 0) < 100, "too few posts while paused")


def replay(payload):
    hist = payload["witness"]["history"]
    hist["ops"] = [tuple(o) for o in hist["ops"]]
    log, errors = run_history(hist)
    P, stats = analyse(hist, log, errors)
    print("replay:", P[:3])
    if P:
        print("VIOLATION property=C19 replay=(replayed)")
        return 1
    return 0

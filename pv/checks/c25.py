"""C25 - replica placement terminates and keeps replicas safe (Engine A pool over real UCSReplication + Discovery + Directory)."""
import itertools
import random as _r

from pv import common, detsched

RULE = ("3-6 agents sharing one process, each a light stub (name, AgentDef with capacity / symmetric routes / one global "
        "default route / hosting costs (a third of the deployments with non-integer route and hosting costs), computations() with footprints, a third of the deployments with hosted computations that are not handed to replication, like repair computations) with a real Discovery and a real UCSReplication "
        "built by build_replication_computation, plus a real Directory; 1-2 computations per agent with different "
        "footprints, random connected neighbour structure; deployment messages are drained, then replicate(k), k in "
        "1..3, is injected per agent at random points of a random per-channel-FIFO schedule; monitors: independent "
        "evaluation of the acceptance rule at every _accept_replica (remaining capacity >= new footprint + max over "
        "<= k-1 owners of the footprints held for them), replication_done reports; at quiescence: every agent reported, "
        "hosts distinct, != owner, <= k, recorded in the host's hosted_replicas and in the directory; plus 16 (quick) / 192 (thorough) resilient thread-mode runs with an agent removal (the C27 harness): once the repair is over and replication has settled again, every computation has <= k replicas, none on its host, all recorded in the directory; non-trivial = "
        ">= 1 replica accepted by an agent already holding replicas of >= 2 owners or 2 of one owner; distinct by "
        "hash(deployment, k, schedule)")


class StubComp:
    def __init__(self, name, fp):
        self.name = name
        self._fp = fp

    def footprint(self):
        return self._fp


class StubAgent:
    """light agent (no thread, no messaging) whose computations() is the REAL Agent.computations applied to its table"""

    def __init__(self, name, agent_def):
        self.name = name
        self.agent_def = agent_def
        self._computations = {}

    @property
    def _comps(self):
        return list(self._computations.values())

    @_comps.setter
    def _comps(self, comps):
        self._computations = {c.name: c for c in comps}

    def computations(self, include_technical=False):
        from pydcop.infrastructure.agents import Agent

        return Agent.computations(self, include_technical)


def gen_deployment(rng):
    na = rng.randint(3, 6)
    agents = ["a%d" % i for i in range(na)]
    # a third of the deployments use non-integer costs (path costs are then sums of floats compared with budgets)
    frac = rng.random() < 0.33
    default_route = rng.choice([1, 1, 2]) if not frac else rng.choice([0.1, 0.7, 1.3])
    routes = {}
    for i, a in enumerate(agents):
        for b in agents[i + 1:]:
            if rng.random() < 0.6:
                routes[(a, b)] = rng.choice([1, 2, 3, 5]) if not frac else rng.choice([0.1, 0.2, 0.3, 0.7, 1.1, 2.6])
    comps = []
    for a in agents:
        for j in range(rng.randint(1, 2)):
            # computation names are arbitrary identifiers (variables are often called A1, B2, x_3 ...)
            prefix = rng.choice(["c", "c", "B", "A", "x"])
            comps.append({"name": "%s_%s_%d" % (prefix, a, j), "agent": a, "footprint": rng.choice([1, 2, 3, 4, 5])})
    # connected neighbour graph over computations
    names = [c["name"] for c in comps]
    order = list(names)
    rng.shuffle(order)
    edges = set()
    for i in range(1, len(order)):
        edges.add(frozenset((order[rng.randrange(i)], order[i])))
    for _ in range(rng.randint(0, len(names))):
        x, y = rng.sample(names, 2)
        edges.add(frozenset((x, y)))
    # computations an agent hosts without handing them to its replication computation (ResilientAgent.add_computation
    # filters the repair computations, named B...): they are never replicated but they do use the agent's capacity
    extras = []
    if rng.random() < 0.35:
        for a in rng.sample(agents, rng.randint(1, 2)):
            extras.append({"name": "Bx_%s" % a, "agent": a, "footprint": rng.choice([2, 3, 5, 8])})
    adefs = {}
    for a in agents:
        cap_kind = rng.choice(["ample", "ample", "tight", "exact", "tiny"])
        own = sum(c["footprint"] for c in comps + extras if c["agent"] == a)
        cap = {"ample": own + 100, "tight": own + rng.randint(3, 9), "exact": own + rng.choice([2, 4, 5]), "tiny": own + rng.randint(0, 2)}[cap_kind]
        adefs[a] = {"capacity": cap, "default_hosting_cost": rng.choice([0, 1, 5]) if not frac else rng.choice([0, 0.1, 0.3, 1.7]),
                    "hosting_costs": {c: (rng.choice([0, 1, 3, 10]) if not frac else rng.choice([0, 0.1, 0.6, 0.7, 3.3])) for c in names if rng.random() < 0.3}}
    return {"agents": agents, "default_route": default_route, "routes": [[a, b, r] for (a, b), r in routes.items()],
            "comps": comps, "edges": [sorted(e) for e in edges], "agent_defs": adefs, "k": rng.randint(1, 3), "fractional_costs": frac, "extras": extras}


class World:
    def __init__(self, dep, seed, choices=None):
        from pydcop.infrastructure.discovery import Discovery, Directory
        from pydcop.dcop.objects import AgentDef
        from pydcop.algorithms import AlgorithmDef, ComputationDef
        from pydcop.computations_graph.objects import ComputationNode
        from pydcop.replication import dist_ucs_hostingcosts as ucs

        self.dep = dep
        self.pool = detsched.Pool(seed, choices=choices)
        self.dir_disc = Discovery("orchestrator", "addr_o")
        self.directory = Directory(self.dir_disc)
        self.dir_disc.use_directory("orchestrator", "addr_o")
        self.pool.add(self.directory.directory_computation)
        self.pool.add(self.dir_disc.discovery_computation)
        self.agents, self.disc, self.rep = {}, {}, {}
        nb = {c["name"]: set() for c in dep["comps"]}
        for x, y in dep["edges"]:
            nb[x].add(y)
            nb[y].add(x)
        self.nb = nb
        ad = AlgorithmDef("dsa", {}, "min")
        self.comp_defs = {c["name"]: ComputationDef(ComputationNode(c["name"], "test", neighbors=sorted(nb[c["name"]])), ad)
                          for c in dep["comps"]}
        for a in dep["agents"]:
            routes = {}
            for x, y, r in dep["routes"]:
                if x == a:
                    routes[y] = r
                elif y == a:
                    routes[x] = r
            d = dep["agent_defs"][a]
            adef = AgentDef(a, capacity=d["capacity"], default_route=dep["default_route"], routes=routes,
                            default_hosting_cost=d["default_hosting_cost"], hosting_costs=dict(d["hosting_costs"]))
            ag = StubAgent(a, adef)
            ag._comps = [StubComp(c["name"], c["footprint"]) for c in dep["comps"] + dep.get("extras", []) if c["agent"] == a]
            disc = Discovery(a, "addr_" + a)
            disc.use_directory("orchestrator", "addr_o")
            rep = ucs.build_replication_computation(ag, disc)
            self.agents[a], self.disc[a], self.rep[a] = ag, disc, rep
            self.pool.add(disc.discovery_computation)
            self.pool.add(rep)
        self.done = {}  # agent -> list of replica_hosts reports
        self.accepts = []  # (host, comp, owner, footprint, ok, detail)
        self.problems = []
        self.stats = {"accepts": 0, "accepts_nontrivial": 0}
        ucs.UCSReplication.memoize_footprint.clear() if hasattr(ucs.UCSReplication, "memoize_footprint") else None
        for a, rep in self.rep.items():
            self._wrap(a, rep)
        for n in list(self.pool.comps):
            self.pool.started.add(n)
            self.pool.call(n, self.pool.comps[n].start)

    def _wrap(self, a, rep):
        w = self
        orig_done = rep.replication_done
        orig_accept = rep._accept_replica

        def done(hosts):
            w.done.setdefault(a, []).append({c: sorted(h) for c, h in hosts.items()})
            return orig_done(hosts)

        def accept(origin_agt, comp_def, footprint):
            k = w.dep["k"]
            agent = w.agents[a]
            # from the harness' own deployment description (not through agent.computations(), which is code under test)
            remaining = w.dep["agent_defs"][a]["capacity"] - sum(c["footprint"] for c in w.dep["comps"] + w.dep.get("extras", []) if c["agent"] == a)
            held = dict(rep.hosted_replicas)
            owners = sorted({o for o, f in held.values()})
            worst = 0
            for r in range(0, min(k - 1, len(owners)) + 1):
                for sel in itertools.combinations(owners, r):
                    worst = max(worst, sum(f for o, f in held.values() if o in sel))
            w.stats["accepts"] += 1
            per_owner = {}
            for o, f in held.values():
                per_owner[o] = per_owner.get(o, 0) + 1
            if len(owners) >= 2 or any(v >= 2 for v in per_owner.values()):
                w.stats["accepts_nontrivial"] += 1
            if remaining < footprint + worst:
                w.problems.append(("acceptance-rule-violated",
                                   "%s accepted a replica of %s (owner %s, footprint %s) with remaining capacity %s < %s + worst case %s "
                                   "over %d owner(s) of the replicas it holds %r (k=%d)" % (
                                       a, comp_def.name, origin_agt, footprint, remaining, footprint, worst, k - 1, held, k)))
            if comp_def.name in held:
                w.problems.append(("replica-accepted-twice", "%s accepted %s twice" % (a, comp_def.name)))
            return orig_accept(origin_agt, comp_def, footprint)

        rep.replication_done = done
        rep._accept_replica = accept

    def deploy(self, drain=True):
        for a in self.dep["agents"]:
            d = self.disc[a]
            self.pool.call(d.discovery_computation.name, lambda d=d, a=a: d.register_agent(a, "addr_" + a))
        self.pool.run(self.pool.steps + 3000)
        for c in self.dep["comps"]:
            d = self.disc[c["agent"]]
            self.pool.call(d.discovery_computation.name, lambda d=d, c=c: d.register_computation(c["name"], c["agent"], "addr_" + c["agent"]))
        self.pool.run(self.pool.steps + 3000)
        for c in self.dep["comps"]:
            d = self.disc[c["agent"]]
            for n in sorted(self.nb[c["name"]]):
                self.pool.call(d.discovery_computation.name, lambda d=d, n=n: d.subscribe_computation(n))
            self.pool.call(self.rep[c["agent"]].name, lambda c=c: self.rep[c["agent"]].add_computation(self.comp_defs[c["name"]], c["footprint"]))
        if drain:
            self.pool.run(self.pool.steps + 5000)


def run_dep(dep, seed, choices=None, harvest=None):
    rng = _r.Random(seed)
    w = World(dep, seed, choices=choices)
    if harvest is not None:
        w.pool.observers.append(lambda kind, data: harvest.append(data[2]) if kind == "send" else None)
    # in a third of the histories the neighbour lookups are still in flight when replication is requested (the
    # orchestrator's request can overtake the directory's answers)
    w.early = rng.random() < 0.33
    w.deploy(drain=not w.early)
    if w.pool.errors:
        return w, "deploy-error"
    detsched.choose_bias(rng, w.pool, list(w.rep[a].name for a in w.rep))
    pending = list(dep["agents"])
    rng.shuffle(pending)
    budget = 400 * len(dep["agents"]) * len(dep["comps"]) + 2000
    start = w.pool.steps
    while pending or w.pool.pending():
        if w.pool.errors or w.pool.steps - start > budget:
            break
        if pending and (rng.random() < 0.35 or not w.pool.pending()):
            a = pending.pop()
            w.pool.call(w.rep[a].name, lambda a=a: w.rep[a].replicate(dep["k"]))
        else:
            if not w.pool.step():
                if not pending:
                    break
    status = "quiescent" if not w.pool.pending() and not pending else "budget"
    if w.pool.errors:
        status = "error"
    return w, status


def check(w, status):
    from pydcop.infrastructure.discovery import UnknownComputation

    P = list(w.problems)
    dep = w.dep
    k = dep["k"]
    if status == "deploy-error":
        e = w.pool.errors[0]
        return [("deployment-exception", "%s raised %s" % (e[0], e[1]))]
    if status == "error":
        e = w.pool.errors[0]
        P.append(("exception:" + e[1].split(":")[0], "%s raised %s | %s" % (e[0], e[1], e[2][-400:])))
        return P
    if status == "budget":
        P.append(("replication-does-not-terminate", "replication messages still flowing after the step budget (%d pending)" % w.pool.pending()))
        return P
    for a in dep["agents"]:
        if not w.done.get(a):
            P.append(("agent-never-reported-done", "%s never called replication_done (quiescent)" % a))
    owner = {c["name"]: c["agent"] for c in dep["comps"]}
    for a, reports in w.done.items():
        final = reports[-1]
        for c, hosts in final.items():
            if owner.get(c) != a:
                continue
            if len(hosts) != len(set(hosts)):
                P.append(("duplicate-hosts", "%s replica hosts %r" % (c, hosts)))
            if a in hosts:
                P.append(("owner-hosts-its-replica", "%s (owner %s) replica hosts %r" % (c, a, hosts)))
            if len(hosts) > k:
                P.append(("too-many-replicas", "%s has %d replicas for k=%d: %r" % (c, len(hosts), k, hosts)))
            for h in hosts:
                if c not in w.rep[h].hosted_replicas:
                    P.append(("reported-host-does-not-hold-replica", "%s reported on %s, whose hosted_replicas are %r" % (c, h, sorted(w.rep[h].hosted_replicas))))
            try:
                reg = w.dir_disc.replica_agents(c)
            except UnknownComputation:
                reg = set()
            if not set(hosts) <= reg:
                P.append(("replica-not-in-directory", "%s hosts %r but the directory lists %r" % (c, hosts, sorted(reg))))
    # every held replica must be known to its owner's final report
    for h, rep in w.rep.items():
        for c, (o, f) in rep.hosted_replicas.items():
            rep_o = (w.done.get(o) or [{}])[-1]
            if h not in rep_o.get(c, []):
                P.append(("held-replica-unknown-to-owner", "%s holds a replica of %s but owner %s reported hosts %r" % (h, c, o, rep_o.get(c))))
    return P


def thread_mode_problems(seed, idx):
    """the replica clauses on the real runtime after an agent removal: a resilient thread-mode run (as in C27), the state
    once the repair is over and the replication level restored (re-hosted computations replicated again by their new
    host, replicas lost with the departed agents placed again by their owners)"""
    from pv.checks import c27

    rng = common.rng_for(seed, "C25-thread", idx)
    inst = c27.gen_instance(rng)
    while inst["algo"] == "maxsum":  # known finding of C27: the synchronous maxsum cannot resume after a migration
        inst = c27.gen_instance(rng)
    # one departing agent: with two, the owner replaces the replicas lost with each of them in two concurrent replications and
    # may end above k (the code says so itself); that is outside what C25 quantifies over and only counted by C27
    leaving = rng.choice([s_ for s_ in c27.subsets(inst) if len(s_) == 1])
    r = c27.run_removal(inst, leaving, (seed * 7919 + idx) & 0x7FFFFFFF, second=True)
    S2 = r.get("second") or {}
    W = {"thread_mode_instance": inst, "leaving": leaving}
    if r["errors"] or "replicas_before" not in S2:
        return [], W, "skipped: %s" % (str(r["errors"][:1] or S2.get("skipped"))[:80])
    k = inst["k"]
    owner = {}
    for a, cs in S2["before"]["hosted"].items():
        if isinstance(cs, list) and a not in leaving:
            for c in cs:
                owner.setdefault(c, a)
    holders = {c: sorted(a for a, reps in S2["replicas_before"].items() if c in reps) for c in r["computations"]}
    ctx = " [thread mode, %s, k=%d, after the departure of %r and the repair; hosting %r; replica holders %r; directory %r]" % (
        inst["algo"], k, leaving, {a: cs for a, cs in S2["before"]["hosted"].items() if a not in leaving}, holders, S2["replica_hosts_before"])
    P = []
    for c, hs in holders.items():
        if len(hs) > k:
            P.append(("too-many-replicas", "%s has %d replicas for k=%d" % (c, len(hs), k) + ctx))
        if owner.get(c) in hs:
            P.append(("owner-hosts-its-replica", "%s is hosted and replicated on %s" % (c, owner.get(c)) + ctx))
        reg = S2["replica_hosts_before"].get(c)
        if isinstance(reg, list) and not set(hs) <= set(reg):
            P.append(("replica-not-in-directory", "%s replicas on %r but the directory lists %r" % (c, hs, reg) + ctx))
    return P, W, "judged"


def worker(job):
    R = common.WorkerResult()
    seed = job["seed"]
    for t in range(job.get("thread_runs", 0)):
        idx = job["lo"] * 1000 + t
        try:
            P, W, st = thread_mode_problems(seed, idx)
        except Exception:
            import traceback

            R.violation("harness:exception", traceback.format_exc()[-900:], {"thread_index": idx})
            continue
        R.bump("thread_mode_runs_with_removal", st)
        seen = set()
        for key, m in P:
            if key not in seen:
                seen.add(key)
                R.violation(key, m, W)
    for i in range(job["lo"], job["hi"]):
        rng = common.rng_for(seed, "C25", i)
        dep = gen_deployment(rng)
        dsig = common.stable_hash(dep)
        for s in range(job["nsched"]):
            sseed = (seed * 1000003 + i * 101 + s) & 0x7FFFFFFF
            try:
                w, status = run_dep(dep, sseed)
                P = check(w, status)
            except Exception as e:
                import traceback

                R.violation("harness:exception", traceback.format_exc()[-900:], {"deployment": dep, "sched_seed": sseed})
                continue
            nontrivial = w.stats["accepts_nontrivial"] >= 1
            R.case(common.stable_hash([dsig, w.pool.trace]), nontrivial,
                   sample={"deployment": dep, "status": status, "accepts": w.stats["accepts"], "reports": {a: r[-1] for a, r in w.done.items()}} if nontrivial and i % 40 == 0 and s == 0 else None)
            R.count("replication_messages_delivered", w.pool.delivered)
            R.count("accept_replica_calls_checked", w.stats["accepts"])
            R.count("accepts_while_holding_several", w.stats["accepts_nontrivial"])
            R.count("agents_reported_done", len(w.done))
            R.bump("k", str(dep["k"]))
            R.count("runs_with_replication_requested_before_the_lookups_were_answered", 1 if getattr(w, "early", False) else 0)
            R.count("runs_with_hosted_computations_outside_replication", 1 if dep.get("extras") else 0)
            R.bump("costs", "fractional" if dep.get("fractional_costs") else "integer")
            R.bump("status", status)
            seen = set()
            for key, m in P:
                if key in seen:
                    continue
                seen.add(key)
                R.violation(key, m, {"deployment": dep, "sched_seed": sseed})
    return R


def harvest_messages(rng):
    """messages really exchanged during a deployment + replication (used by C15)"""
    dep = gen_deployment(rng)
    out = []
    run_dep(dep, rng.randint(0, 2 ** 30), harvest=out)
    return out


def main(chk, tier, seed):
    chk.rule = RULE
    chk.assumptions = ["symmetric routes with one global default route (what the DCOP format guarantees)",
                       "bounded progress: 400 x #agents x #computations scheduler steps",
                       "k in the rule = the level passed to replicate(); an agent may be stricter"]
    n = 1500 if tier == "quick" else 64000
    common.run_chunked(chk, "c25", n, nchunks=16 if tier == "quick" else 64, job_extra={"nsched": 2 if tier == "quick" else 3, "thread_runs": 1 if tier == "quick" else 3}, timeout=3000)
    chk.inconclusive_if(chk.counters.get("accept_replica_calls_checked", 0) < 500, "too few replica acceptances observed")
    chk.inconclusive_if(chk.counters.get("accepts_while_holding_several", 0) < 50, "acceptance rule hardly exercised with several held replicas")


def replay(payload):
    w_ = payload["witness"]
    if "deployment" not in w_:
        print(payload["what"])
        print("VIOLATION property=C25 replay=(recorded witness of a thread-mode run)")
        return 1
    w, status = run_dep(w_["deployment"], w_["sched_seed"])
    P = check(w, status)
    print("replay:", status, P[:3])
    if P:
        print("VIOLATION property=C25 replay=(replayed)")
        return 1
    return 0

"""C25 - replica placement terminates and keeps replicas safe (Engine A pool over real UCSReplication + Discovery + Directory)."""
import itertools
import random as _r

from pv import common, detsched

RULE = ("3-6 agents sharing one process, each a light stub (name, AgentDef with capacity / symmetric routes / one global "
        "default route / hosting costs (a third of the deployments with non-integer route and hosting costs), computations() with footprints, a third of the deployments with hosted computations that are not handed to replication, like repair computations) with a real Discovery and a real UCSReplication "
        "built by build_replication_computation, plus a real Directory; 1-2 computations per agent with different "
        "footprints, random connected neighbour structure; deployment messages are drained, then replicate(k), k in "
        "1..3, is injected per agent at random points of a random per-channel-FIFO schedule; monitors: independent "
        "evaluation of the acceptance rule at every _accept_replica (remaining capacity >= new footprint + max over "
        "<= k-1 owners of the footprints held for them), replication_done reports; at quiescence: every agent reported, "
        "hosts distinct, != owner, <= k, recorded in the host's hosted_replicas and in the directory; plus 16 (quick) / 192 (thorough) resilient thread-mode runs with an agent removal (the C27 harness): once the repair is over and replication has settled again, every computation has <= k replicas, none on its host, all recorded in the directory; non-trivial = "
        ">= 1 replica accepted by an agent already holding replicas of >= 2 owners or 2 of one owner; distinct by "
        "hash(deployment, k, schedule)")


class StubComp:
    def __init__(self, name, fp):
        self.name = name
        self._fp = fp

    def footprint(self):
        return self._fp


class StubAgent:
    """light agent (no thread, no messaging) whose computations() is the REAL Agent.computations applied to its table"""

    def __init__(self, name, agent_def):
        self.name = name
        self.agent_def = agent_def
        self._computations = {}

    @property
    def _comps(self):
        return list(self._computations.values())

    @_comps.setter
    def _comps(self, comps):
        self._computations = {c.name: c for c in comps}

    def computations(self, include_technical=False):
        from pydcop.infrastructure.agents import Agent

        return Agent.computations(self, include_technical)


def gen_deployment(rng):
    na = rng.randint(3, 6)
    agents = ["a%d" % i for i in range(na)]
    # a third of the deployments use non-integer costs (path costs are then sums of floats compared with budgets)
    frac = rng.random() < 0.33
    default_route = rng.choice([1, 1, 2]) if not frac else rng.choice([0.1, 0.7, 1.3])
    routes = {}
    for i, a in enumerate(agents):
        for b in agents[i + 1:]:
            if rng.random() < 0.6:
                routes[(a, b)] = rng.choice([1, 2, 3, 5]) if not frac else rng.choice([0.1, 0.2, 0.3, 0.7, 1.1, 2.6])
    comps = []
    for a in agents:
        for j in range(rng.randint(1, 2)):
            # computation names are arbitrary identifiers (variables are often called A1, B2, x_3 ...)
            prefix = rng.choice(["c", "c", "B", "A", "x"])
            comps.append({"name": "%s_%s_%d" % (prefix, a, j), "agent": a, "footprint": rng.choice([1, 2, 3, 4, 5])})
    # connected neighbour graph over computations
    names = [c["name"] for c in comps]
    order = list(names)
    rng.shuffle(order)
    edges = set()
    for i in range(1, len(order)):
        edges.add(frozenset((order[rng.randrange(i)], order[i])))
    for _ in range(rng.randint(0, len(names))):
        x, y = rng.sample(names, 2)
        edges.add(frozenset((x, y)))
    # computations an agent hosts without handing them to its replication computation (ResilientAgent.add_computation
    # filters the repair computations, named B...): they are never replicated but they do use the agent's capacity
    extras = []
    if rng.random() < 0.35:
        for a in rng.sample(agents, rng.randint(1, 2)):
            extras.append({"name": "Bx_%s" % a, "agent": a, "footprint": rng.choice([2, 3, 5, 8])})
    adefs = {}
    for a in agents:
        cap_kind = rng.choice(["ample", "ample", "tight", "exact", "tiny"])
        own = sum(c["footprint"] for c in comps + extras if c["agent"] == a)
        cap = {"ample": own + 100, "tight": own + rng.randint(3, 9), "exact": own + rng.choice([2, 4, 5]), "tiny": own + rng.randint(0, 2)}[cap_kind]
        adefs[a] = {"capacity": cap, "default_hosting_cost": rng.choice([0, 1, 5]) if not frac else rng.choice([0, 0.1, 0.3, 1.7]),
                    "hosting_costs": {c: (rng.choice([0, 1, 3, 10]) if not frac else rng.choice([0, 0.1, 0.6, 0.7, 3.3])) for c in names if rng.random() < 0.3}}
    return {"agents": agents, "default_route": default_route, "routes": [[a, b, r] for (a, b), r in routes.items()],
            "comps": comps, "edges": [sorted(e) for e in edges], "agent_defs": adefs, "k": rng.randint(1, 3), "fractional_costs": frac, "extras": extras}


class World:
    def __init__(self, dep, seed, choices=None):
        from pydcop.infrastructure.discovery import Discovery, Directory
        from pydcop.dcop.objects import AgentDef
        from pydcop.algorithms import AlgorithmDef, ComputationDef
        from pydcop.computations_graph.objects import ComputationNode
        from pydcop.replication import dist_ucs_hostingcosts as ucs

        self.dep = dep
        self.pool = detsched.Pool(seed, choices=choices)
        self.dir_disc = Discovery("orchestrator", "addr_o")
        self.directory = Directory(self.dir_disc)
        self.dir_disc.use_directory("orchestrator", "addr_o")
        self.pool.add(self.directory.directory_computation)
        self.pool.add(self.dir_disc.discovery_computation)
        self.agents, self.disc, self.rep = {}, {}, {}
        self.hosted = {}  # agent -> {computation: footprint} really hosted now (changes when a computation migrates)
        self.departed = None
        self.lost_requests = set()
        self.migrated = {}  # computation -> new host
        nb = {c["name"]: set() for c in dep["comps"]}
        for x, y in dep["edges"]:
            nb[x].add(y)
            nb[y].add(x)
        self.nb = nb
        ad = AlgorithmDef("dsa", {}, "min")
        self.comp_defs = {c["name"]: ComputationDef(ComputationNode(c["name"], "test", neighbors=sorted(nb[c["name"]])), ad)
                          for c in dep["comps"]}
        for a in dep["agents"]:
            routes = {}
            for x, y, r in dep["routes"]:
                if x == a:
                    routes[y] = r
                elif y == a:
                    routes[x] = r
            d = dep["agent_defs"][a]
            adef = AgentDef(a, capacity=d["capacity"], default_route=dep["default_route"], routes=routes,
                            default_hosting_cost=d["default_hosting_cost"], hosting_costs=dict(d["hosting_costs"]))
            ag = StubAgent(a, adef)
            ag._comps = [StubComp(c["name"], c["footprint"]) for c in dep["comps"] + dep.get("extras", []) if c["agent"] == a]
            self.hosted.setdefault(a, {}).update({c["name"]: c["footprint"] for c in dep["comps"] + dep.get("extras", []) if c["agent"] == a})
            disc = Discovery(a, "addr_" + a)
            disc.use_directory("orchestrator", "addr_o")
            rep = ucs.build_replication_computation(ag, disc)
            rep.k_target = dep["k"]  # what ResilientAgent.replicate(k) does before calling replicate(k)
            self.agents[a], self.disc[a], self.rep[a] = ag, disc, rep
            self.pool.add(disc.discovery_computation)
            self.pool.add(rep)
        self.done = {}  # agent -> list of replica_hosts reports
        self.accepts = []  # (host, comp, owner, footprint, ok, detail)
        self.problems = []
        self.stats = {"accepts": 0, "accepts_nontrivial": 0}
        ucs.UCSReplication.memoize_footprint.clear() if hasattr(ucs.UCSReplication, "memoize_footprint") else None
        for a, rep in self.rep.items():
            self._wrap(a, rep)
        for n in list(self.pool.comps):
            self.pool.started.add(n)
            self.pool.call(n, self.pool.comps[n].start)

    def _wrap(self, a, rep):
        w = self
        orig_done = rep.replication_done
        orig_accept = rep._accept_replica

        def done(hosts):
            w.done.setdefault(a, []).append({c: sorted(h) for c, h in hosts.items()})
            return orig_done(hosts)

        def accept(origin_agt, comp_def, footprint):
            k = w.dep["k"]
            agent = w.agents[a]
            # from the harness' own deployment description (not through agent.computations(), which is code under test)
            remaining = w.dep["agent_defs"][a]["capacity"] - sum(w.hosted[a].values())
            held = dict(rep.hosted_replicas)
            owners = sorted({o for o, f in held.values()})
            worst = 0
            for r in range(0, min(k - 1, len(owners)) + 1):
                for sel in itertools.combinations(owners, r):
                    worst = max(worst, sum(f for o, f in held.values() if o in sel))
            w.stats["accepts"] += 1
            per_owner = {}
            for o, f in held.values():
                per_owner[o] = per_owner.get(o, 0) + 1
            if len(owners) >= 2 or any(v >= 2 for v in per_owner.values()):
                w.stats["accepts_nontrivial"] += 1
            if remaining < footprint + worst:
                w.problems.append(("acceptance-rule-violated",
                                   "%s accepted a replica of %s (owner %s, footprint %s) with remaining capacity %s < %s + worst case %s "
                                   "over %d owner(s) of the replicas it holds %r (k=%d)" % (
                                       a, comp_def.name, origin_agt, footprint, remaining, footprint, worst, k - 1, held, k)))
            if comp_def.name in held:
                w.problems.append(("replica-accepted-twice", "%s accepted %s twice" % (a, comp_def.name)))
            return orig_accept(origin_agt, comp_def, footprint)

        rep.replication_done = done
        rep._accept_replica = accept
        orig_lost = rep._answer_lost_requests

        def answer_lost(agent):
            # observation: searches that had a request pending at an agent that has left (what that agent had relayed, and
            # the replicas accepted further on that path, are unknown to the owner)
            for rq_agt, rq_comp in list(rep._pending_requests):
                if rq_agt == agent:
                    w.lost_requests.add(rq_comp)
            return orig_lost(agent)

        rep._answer_lost_requests = answer_lost

    def deploy(self, drain=True):
        for a in self.dep["agents"]:
            d = self.disc[a]
            self.pool.call(d.discovery_computation.name, lambda d=d, a=a: d.register_agent(a, "addr_" + a))
        self.pool.run(self.pool.steps + 3000)
        for c in self.dep["comps"]:
            d = self.disc[c["agent"]]
            self.pool.call(d.discovery_computation.name, lambda d=d, c=c: d.register_computation(c["name"], c["agent"], "addr_" + c["agent"]))
        self.pool.run(self.pool.steps + 3000)
        for c in self.dep["comps"]:
            d = self.disc[c["agent"]]
            for n in sorted(self.nb[c["name"]]):
                self.pool.call(d.discovery_computation.name, lambda d=d, n=n: d.subscribe_computation(n))
            self.pool.call(self.rep[c["agent"]].name, lambda c=c: self.rep[c["agent"]].add_computation(self.comp_defs[c["name"]], c["footprint"]))
        if drain:
            self.pool.run(self.pool.steps + 5000)


def run_dep(dep, seed, choices=None, harvest=None, migration=False):
    rng = _r.Random(seed)
    w = World(dep, seed, choices=choices)
    if harvest is not None:
        w.pool.observers.append(lambda kind, data: harvest.append(data[2]) if kind == "send" else None)
    # in a third of the histories the neighbour lookups are still in flight when replication is requested (the
    # orchestrator's request can overtake the directory's answers)
    w.early = rng.random() < 0.33
    w.deploy(drain=not w.early)
    if w.pool.errors:
        return w, "deploy-error"
    detsched.choose_bias(rng, w.pool, list(w.rep[a].name for a in w.rep))
    pending = list(dep["agents"])
    rng.shuffle(pending)
    budget = 400 * len(dep["agents"]) * len(dep["comps"]) + 2000
    start = w.pool.steps
    while pending or w.pool.pending():
        if w.pool.errors or w.pool.steps - start > budget:
            break
        if pending and (rng.random() < 0.35 or not w.pool.pending()):
            a = pending.pop()
            w.pool.call(w.rep[a].name, lambda a=a: w.rep[a].replicate(dep["k"]))
        else:
            if not w.pool.step():
                if not pending:
                    break
    status = "quiescent" if not w.pool.pending() and not pending else "budget"
    if w.pool.errors:
        status = "error"
    if status == "quiescent" and migration and rng.random() < 0.6 and not check(w, status):
        if migrate(w, rng):
            status = "quiescent" if not w.pool.pending() else "budget"
            if w.pool.errors:
                status = "error"
    return w, status


def migrate(w, rng):
    """what a departure and its repair do to replication, on the deterministic scheduler: agent O leaves (its replication
    computation stops and drops the replicas it held, its computations and the agent are unregistered), each of its
    computations that has a replica is activated on one of the holders (registered there, handed to that agent's
    replication computation, its replica dropped, replicated again at level k), the other holders drop their old replica;
    these steps are injected at random points of a random FIFO schedule. Returns False when no agent can leave."""
    dep = w.dep
    final = {}
    for a, reports in w.done.items():
        for c, hosts in reports[-1].items():
            final[c] = hosts
    cands = [a for a in dep["agents"] if any(final.get(c["name"]) for c in dep["comps"] if c["agent"] == a)]
    if len(dep["agents"]) < 3 or not cands:
        return False
    O = rng.choice(cands)
    w.departed = O
    fpt = {c["name"]: c["footprint"] for c in dep["comps"]}
    ops = []
    setups = []  # every candidate sets the repair up (repair_ready) before any repair computation runs (repair_run)
    # the departing agent stops (ResilientAgent._on_stop, Agent._on_stop)
    leave = [lambda: w.rep[O].stop()]
    leave.append(lambda: w.disc[O].unregister_computation(w.rep[O].name))
    for c in [c["name"] for c in dep["comps"] if c["agent"] == O]:
        leave.append(lambda c=c: w.disc[O].unregister_computation(c, O))
    leave.append(lambda: w.disc[O].unregister_agent(O))
    ops.append(("leave", O, leave))
    mine = [c["name"] for c in dep["comps"] if c["agent"] == O]
    forced = {}
    if len(mine) == 2 and rng.random() < 0.6:
        # the two computations of the departing agent share a replica holder: that holder activates one of them (its free
        # capacity drops) while the other one goes to another holder, which will ask it again for a replica
        c1, c2 = rng.sample(mine, 2)
        common = [h for h in final.get(c1, []) if h in final.get(c2, []) and h != O]
        others = [h for h in final.get(c2, []) if h != O and h not in common]
        if common and others:
            forced = {c1: rng.choice(common), c2: rng.choice(others)}
    for c in mine:
        holders = [h for h in final.get(c, []) if h != O]
        if not holders:
            continue
        N = forced.get(c) or rng.choice(holders)
        w.migrated[c] = N

        def activate(c=c, N=N):
            # setup_repair forgets the old host locally; the winner deploys the computation and re-replicates it
            try:
                w.disc[N].unregister_computation(c, publish=False)
            except Exception:
                pass
            w.agents[N]._computations[c] = StubComp(c, fpt[c])
            w.hosted[N][c] = fpt[c]
            w.disc[N].register_computation(c, N, "addr_" + N)
            for n_ in sorted(w.nb[c]):  # Agent.add_computation subscribes to the neighbours of the computation it adds
                if n_ not in w.agents[N]._computations:
                    w.disc[N].subscribe_computation(n_)
            w.rep[N].add_computation(w.comp_defs[c], fpt[c])
            if c in w.rep[N].hosted_replicas:
                w.rep[N].remove_replica(c)
            w.rep[N].replicate(dep["k"], [c])

        def setup(c=c, h=None):
            # ResilientAgent.setup_repair: every candidate forgets the orphan's former host locally
            try:
                w.disc[h].unregister_computation(c, publish=False)
            except Exception:
                pass

        setups.append(("setup", N, lambda c=c, N=N: setup(c, N)))
        ops.append(("activate", N, [activate]))
        for h in holders:
            if h != N:
                def drop(c=c, h=h, N=N):
                    # a losing candidate drops the replica given by the former host (not one already accepted from N)
                    held = w.rep[h].hosted_replicas.get(c)
                    if held is not None and held[0] != N:
                        w.rep[h].remove_replica(c)

                setups.append(("setup", h, lambda c=c, h=h: setup(c, h)))
                ops.append(("drop", h, [drop]))
    leave_op = ops.pop(0)
    rng.shuffle(setups)
    rng.shuffle(ops)
    if rng.random() < 0.5:
        # the losing candidates finish last (their repair computation ends after the winners have asked for replicas again)
        ops.sort(key=lambda o_: o_[0] == "drop")
    # setups first, then the ends of the repair computations; the departing agent's own steps keep their order and start at
    # a random point; everything is interleaved with deliveries
    flat = list(setups)
    for kind, a, fns in ops:
        for fn in fns:
            flat.append((kind, a, fn))
    at = rng.randint(0, len(flat))
    for j, fn in enumerate(leave_op[2]):
        flat.insert(min(len(flat), at + j * rng.randint(1, 2)), ("leave", O, fn))
    # keep the departing agent's steps in their own order
    order_ = [x for x in flat if x[0] == "leave"]
    it_ = iter(leave_op[2])
    flat = [(k_, a_, next(it_)) if k_ == "leave" else (k_, a_, f_) for k_, a_, f_ in flat]
    budget = 400 * len(dep["agents"]) * len(dep["comps"]) + 4000
    start = w.pool.steps
    gone = False
    while flat or w.pool.pending():
        if w.pool.errors or w.pool.steps - start > budget:
            break
        if flat and (rng.random() < 0.4 or not w.pool.pending()):
            kind, a, fn = flat.pop(0)
            if kind == "leave" and not gone:
                # _on_stop runs once the agent's loop is over: nothing is delivered to its computations any more (what they
                # sent before is still on its way), but they can still send
                gone = True
                for n in (w.rep[O].name, w.disc[O].discovery_computation.name):
                    w.pool.comps.pop(n, None)
                    if n in w.pool.order:
                        w.pool.order.remove(n)
            w.pool.call(w.rep[a].name if kind != "leave" else w.disc[a].discovery_computation.name, fn)
        else:
            if not w.pool.step() and not flat:
                break
    w.hosted.pop(O, None)
    return True


def check(w, status):
    from pydcop.infrastructure.discovery import UnknownComputation

    P = list(w.problems)
    dep = w.dep
    k = dep["k"]
    if status == "deploy-error":
        e = w.pool.errors[0]
        return [("deployment-exception", "%s raised %s" % (e[0], e[1]))]
    if status == "error":
        e = w.pool.errors[0]
        P.append(("exception:" + e[1].split(":")[0], "%s raised %s | %s" % (e[0], e[1], e[2][-400:])))
        return P
    if status == "budget":
        P.append(("replication-does-not-terminate", "replication messages still flowing after the step budget (%d pending)" % w.pool.pending()))
        return P
    gone = w.departed
    for a in dep["agents"]:
        if not w.done.get(a) and a != gone:
            P.append(("agent-never-reported-done", "%s never called replication_done (quiescent)" % a))
    owner = {c["name"]: c["agent"] for c in dep["comps"] if c["agent"] != gone}
    owner.update(w.migrated)  # computations of the departed agent activated on a replica holder; the others are lost
    ctx = "" if gone is None else " [after the departure of %s, computations activated on %r]" % (gone, w.migrated)
    # a replication (and every request passing through an agent) waits until the hosts of that agent's neighbours are known: when
    # a computation of the departed agent had no replica it is lost for good and its neighbours' agents wait for ever; progress
    # is only expected when nothing was lost
    lost = [c["name"] for c in dep["comps"] if c["agent"] == gone and c["name"] not in w.migrated]
    for c, n_ in w.migrated.items():
        if not lost and c not in (w.done.get(n_) or [{}])[-1]:
            P.append(("migrated-computation-never-replicated-again", "%s activated on %s: its new host never reported a replication of it%s" % (c, n_, ctx)))
    for a, reports in w.done.items():
        if a == gone:
            continue
        final = reports[-1]
        if gone is not None:
            # after a departure a re-replication may be waiting for a neighbour that is lost for good and never report again:
            # what the owner knows now (its table of replica hosts) is judged, not its last report
            final = {c: sorted(h) for c, h in w.rep[a]._replica_hosts.items()}
        for c, hosts in final.items():
            if owner.get(c) != a:
                continue
            if gone in hosts:
                P.append(("departed-agent-still-counted-as-replica-host", "%s (owner %s) replica hosts %r%s" % (c, a, hosts, ctx)))
                continue
            if len(hosts) != len(set(hosts)):
                P.append(("duplicate-hosts", "%s replica hosts %r" % (c, hosts)))
            if a in hosts:
                P.append(("owner-hosts-its-replica", "%s (owner %s) replica hosts %r" % (c, a, hosts)))
            if len(hosts) > k:
                P.append(("too-many-replicas", "%s has %d replicas for k=%d: %r" % (c, len(hosts), k, hosts)))
            for h in hosts:
                if c not in w.rep[h].hosted_replicas:
                    P.append(("reported-host-does-not-hold-replica", "%s reported on %s, whose hosted_replicas are %r" % (c, h, sorted(w.rep[h].hosted_replicas))))
            try:
                reg = w.dir_disc.replica_agents(c)
            except UnknownComputation:
                reg = set()
            if not set(hosts) <= reg:
                P.append(("replica-not-in-directory", "%s hosts %r but the directory lists %r" % (c, hosts, sorted(reg))))
    # every held replica must be known to its owner's final report
    for h, rep in w.rep.items():
        if h == gone:
            continue
        for c, (o, f) in rep.hosted_replicas.items():
            if o == gone:
                if c in w.migrated:
                    P.append(("stale-replica-kept-after-migration", "%s still holds the replica of %s given by the departed %s%s" % (h, c, o, ctx)))
                continue  # replica of a lost computation: nobody is there to manage it any more
            rep_o = (w.done.get(o) or [{}])[-1]
            if gone is not None:
                # an answer relayed by the departing agent can be lost with it: the owner then does not know a replica that was
                # accepted; what the property states is judged on the holders themselves below
                continue
            if h not in rep_o.get(c, []):
                P.append(("held-replica-unknown-to-owner", "%s holds a replica of %s but owner %s reported hosts %r%s" % (h, c, o, rep_o.get(c), ctx)))
    if gone is not None:
        # the clauses of the property on the replicas really held after the departure and the migrations
        holders = {}
        for h, rep in w.rep.items():
            if h != gone:
                for c, (o, f) in rep.hosted_replicas.items():
                    if o != gone:
                        holders.setdefault(c, []).append(h)
        for c, hs in holders.items():
            if len(hs) > k and c in w.lost_requests:
                # the owner's search had a request pending at the departing agent: a replica accepted further on that path
                # was never reported back (relay lost), the owner placed another one; departures are outside what the
                # property quantifies over, this is counted, not judged
                continue
            if len(hs) > k:
                P.append(("too-many-replicas", "%s is replicated on %r for k=%d (replicas really held)" % (c, sorted(hs), k)))
            if owner.get(c) in hs:
                P.append(("owner-hosts-its-replica", "%s is hosted and replicated on %s" % (c, owner.get(c))))
            try:
                reg = w.dir_disc.replica_agents(c)
            except UnknownComputation:
                reg = None
            if reg is not None and not set(hs) <= set(reg):
                P.append(("replica-not-in-directory", "%s replicas held by %r but the directory lists %r" % (c, sorted(hs), sorted(reg))))
    if ctx:
        P = [(k_, m_ if m_.endswith("]") and "departure" in m_ else m_ + ctx) for k_, m_ in P]
    return P


def thread_mode_problems(seed, idx):
    """the replica clauses on the real runtime after an agent removal: a resilient thread-mode run (as in C27), the state
    once the repair is over and the replication level restored (re-hosted computations replicated again by their new
    host, replicas lost with the departed agents placed again by their owners)"""
    from pv.checks import c27

    rng = common.rng_for(seed, "C25-thread", idx)
    inst = c27.gen_instance(rng)
    while inst["algo"] == "maxsum":  # known finding of C27: the synchronous maxsum cannot resume after a migration
        inst = c27.gen_instance(rng)
    # one departing agent: with two, the owner replaces the replicas lost with each of them in two concurrent replications and
    # may end above k (the code says so itself); that is outside what C25 quantifies over and only counted by C27
    leaving = rng.choice([s_ for s_ in c27.subsets(inst) if len(s_) == 1])
    r = c27.run_removal(inst, leaving, (seed * 7919 + idx) & 0x7FFFFFFF, second=True)
    S2 = r.get("second") or {}
    W = {"thread_mode_instance": inst, "leaving": leaving}
    if r["errors"] or "replicas_before" not in S2:
        return [], W, "skipped: %s" % (str(r["errors"][:1] or S2.get("skipped"))[:80])
    k = inst["k"]
    owner = {}
    for a, cs in S2["before"]["hosted"].items():
        if isinstance(cs, list) and a not in leaving:
            for c in cs:
                owner.setdefault(c, a)
    holders = {c: sorted(a for a, reps in S2["replicas_before"].items() if c in reps) for c in r["computations"]}
    ctx = " [thread mode, %s, k=%d, after the departure of %r and the repair; hosting %r; replica holders %r; directory %r]" % (
        inst["algo"], k, leaving, {a: cs for a, cs in S2["before"]["hosted"].items() if a not in leaving}, holders, S2["replica_hosts_before"])
    P = []
    for c, hs in holders.items():
        if len(hs) > k:
            P.append(("too-many-replicas", "%s has %d replicas for k=%d" % (c, len(hs), k) + ctx))
        if owner.get(c) in hs:
            P.append(("owner-hosts-its-replica", "%s is hosted and replicated on %s" % (c, owner.get(c)) + ctx))
        reg = S2["replica_hosts_before"].get(c)
        if isinstance(reg, list) and not set(hs) <= set(reg):
            P.append(("replica-not-in-directory", "%s replicas on %r but the directory lists %r" % (c, hs, reg) + ctx))
    return P, W, "judged"


def worker(job):
    R = common.WorkerResult()
    seed = job["seed"]
    for t in range(job.get("thread_runs", 0)):
        idx = job["lo"] * 1000 + t
        try:
            P, W, st = thread_mode_problems(seed, idx)
        except Exception:
            import traceback

            R.violation("harness:exception", traceback.format_exc()[-900:], {"thread_index": idx})
            continue
        R.bump("thread_mode_runs_with_removal", st)
        seen = set()
        for key, m in P:
            if key not in seen:
                seen.add(key)
                R.violation(key, m, W)
    for i in range(job["lo"], job["hi"]):
        rng = common.rng_for(seed, "C25", i)
        dep = gen_deployment(rng)
        dsig = common.stable_hash(dep)
        for s in range(job["nsched"]):
            sseed = (seed * 1000003 + i * 101 + s) & 0x7FFFFFFF
            try:
                w, status = run_dep(dep, sseed, migration=True)
                P = check(w, status)
            except Exception as e:
                import traceback

                R.violation("harness:exception", traceback.format_exc()[-900:], {"deployment": dep, "sched_seed": sseed})
                continue
            nontrivial = w.stats["accepts_nontrivial"] >= 1
            R.case(common.stable_hash([dsig, w.pool.trace]), nontrivial,
                   sample={"deployment": dep, "status": status, "accepts": w.stats["accepts"], "reports": {a: r[-1] for a, r in w.done.items()}} if nontrivial and i % 40 == 0 and s == 0 else None)
            R.count("replication_messages_delivered", w.pool.delivered)
            R.count("accept_replica_calls_checked", w.stats["accepts"])
            R.count("accepts_while_holding_several", w.stats["accepts_nontrivial"])
            R.count("agents_reported_done", len(w.done))
            R.bump("k", str(dep["k"]))
            R.count("runs_with_replication_requested_before_the_lookups_were_answered", 1 if getattr(w, "early", False) else 0)
            R.count("runs_with_a_departure_and_migration", 1 if w.departed else 0)
            R.count("computations_migrated_and_replicated_again", len(w.migrated))
            R.count("replication_searches_with_a_request_lost_at_the_departing_agent", len(w.lost_requests))
            R.count("runs_with_hosted_computations_outside_replication", 1 if dep.get("extras") else 0)
            R.bump("costs", "fractional" if dep.get("fractional_costs") else "integer")
            R.bump("status", status)
            seen = set()
            for key, m in P:
                if key in seen:
                    continue
                seen.add(key)
                R.violation(key, m, {"deployment": dep, "sched_seed": sseed})
    return R


def harvest_messages(rng):
    """messages really exchanged during a deployment + replication (used by C15)"""
    dep = gen_deployment(rng)
    out = []
    run_dep(dep, rng.randint(0, 2 ** 30), harvest=out)
    return out


def main(chk, tier, seed):
    chk.rule = RULE
    chk.assumptions = ["symmetric routes with one global default route (what the DCOP format guarantees)",
                       "bounded progress: 400 x #agents x #computations scheduler steps",
                       "k in the rule = the level passed to replicate(); an agent may be stricter"]
    n = 2400 if tier == "quick" else 64000
    common.run_chunked(chk, "c25", n, nchunks=16 if tier == "quick" else 64, job_extra={"nsched": 2 if tier == "quick" else 3, "thread_runs": 1 if tier == "quick" else 3}, timeout=3000)
    chk.inconclusive_if(chk.counters.get("accept_replica_calls_checked", 0) < 500, "too few replica acceptances observed")
    chk.inconclusive_if(chk.counters.get("accepts_while_holding_several", 0) < 50, "acceptance rule hardly exercised with several held replicas")


def replay(payload):
    w_ = payload["witness"]
    if "deployment" not in w_:
        print(payload["what"])
        print("VIOLATION property=C25 replay=(recorded witness of a thread-mode run)")
        return 1
    w, status = run_dep(w_["deployment"], w_["sched_seed"], migration=True)
    P = check(w, status)
    print("replay:", status, P[:3])
    if P:
        print("VIOLATION property=C25 replay=(replayed)")
        return 1
    return 0

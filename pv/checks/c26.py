"""C26 - repair DCOP constraints and candidate info encode the repair rules (Engine C)."""
import itertools

from pv import common

RULE = ("generated discovery states (real Discovery filled with publish=False: 2-5 agents, 1-6 computations, random replica "
        "sets incl. empty ones and replicas only on departed agents), real ComputationGraph with random neighbour "
        "structure, EVERY non-empty departed subset: candidate agents / computations / candidate info compared with a "
        "set-based oracle; the four repair constraints (hosted, capacity, hosting, communication), each assignment given as keywords in scope order, keywords and dict in another order and through a slice, built for generated "
        "candidate sets and evaluated on EVERY binary assignment of their scope against the defining formulas with a "
        "harness comm/footprint/hosting table; non-trivial = >= 2 orphaned computations with an orphaned neighbour, or a "
        "constraint over >= 3 binary variables; distinct by hash(state, departed) / hash(constraint instance)")


def gen_state(rng):
    na = rng.randint(2, 5)
    agents = ["a%d" % i for i in range(1, na + 1)]
    nc = rng.randint(1, 6)
    comps = ["c%d" % i for i in range(1, nc + 1)]
    host = {c: rng.choice(agents) for c in comps}
    replicas = {}
    for c in comps:
        others = [a for a in agents if a != host[c]]
        k = rng.randint(0, len(others))
        replicas[c] = sorted(rng.sample(others, k))
    edges = set()
    for c in comps:
        for d in comps:
            if c < d and rng.random() < 0.4:
                edges.add((c, d))
    return {"agents": agents, "comps": comps, "host": host, "replicas": replicas, "edges": sorted(edges)}


def build_state(st):
    from pydcop.infrastructure.discovery import Discovery
    from pydcop.computations_graph.objects import ComputationGraph, ComputationNode

    d = Discovery("orchestrator", "addr_o")
    for a in st["agents"]:
        d.register_agent(a, "addr_" + a, publish=False)
    for c in st["comps"]:
        d.register_computation(c, st["host"][c], publish=False)
    for c, agts in st["replicas"].items():
        for a in agts:
            d.register_replica(c, a, publish=False)
    nb = {c: set() for c in st["comps"]}
    for x, y in st["edges"]:
        nb[x].add(y)
        nb[y].add(x)
    nodes = [ComputationNode(c, "test", neighbors=sorted(nb[c])) for c in st["comps"]]
    cg = ComputationGraph(graph_type="test", nodes=nodes)
    return d, cg, nb


def check_removal(st, R, rng=None):
    """all departed subsets on one Discovery object; then the hosting changes on that SAME object (computations and
    replicas move, as after a repair) and all the subsets are asked again: the information must follow the current state"""
    import copy

    d, cg, nb = build_state(st)
    P = scan_removals(st, d, cg, nb, R)
    if P or rng is None:
        return P
    st2 = copy.deepcopy(st)
    for c in rng.sample(st2["comps"], min(len(st2["comps"]), rng.randint(1, 2))):
        others = [a for a in st2["agents"] if a != st2["host"][c]]
        if not others:
            continue
        new = rng.choice(others)
        d.unregister_computation(c, st2["host"][c], publish=False)
        d.register_computation(c, new, publish=False)
        st2["host"][c] = new
        # replicas are kept by the discovery across the re-registration; a replica is never on the host itself
        if new in st2["replicas"][c]:
            d.unregister_replica(c, new, publish=False)
            st2["replicas"][c] = [a for a in st2["replicas"][c] if a != new]
    R.count("states_rescanned_after_a_hosting_change")
    return [("after-hosting-change:" + k, m) for k, m in scan_removals(st2, d, cg, nb, R)]


def scan_removals(st, d, cg, nb, R):
    from pydcop.reparation import removal

    P = []
    agents = st["agents"]
    for r in range(1, len(agents) + 1):
        for departed in itertools.combinations(agents, r):
            departed = list(departed)
            dep = set(departed)
            orphaned = sorted(c for c in st["comps"] if st["host"][c] in dep)
            R.count("departed_subsets_checked")
            try:
                got_orph = sorted(removal._removal_orphaned_computations(departed, d))
                if got_orph != orphaned:
                    P.append(("orphaned-computations", "departed %r: orphaned %r, expected %r" % (departed, got_orph, orphaned)))
                want_agents = sorted({a for c in orphaned for a in st["replicas"][c] if a not in dep})
                got_agents = removal._removal_candidate_agents(departed, d)
                if sorted(got_agents) != want_agents or len(got_agents) != len(set(got_agents)):
                    P.append(("candidate-agents", "departed %r: candidate agents %r, expected exactly %r" % (departed, sorted(got_agents), want_agents)))
                for agt in [a for a in agents if a not in dep]:
                    want_comps = sorted(c for c in orphaned if agt in st["replicas"][c])
                    got_comps = sorted(removal._removal_candidate_computations_for_agt(agt, orphaned, d))
                    if got_comps != want_comps:
                        P.append(("candidate-computations", "departed %r, agent %s: %r, expected %r" % (departed, agt, got_comps, want_comps)))
                    info = removal._removal_candidate_agt_info(agt, departed, cg, d)
                    if sorted(info) != want_comps:
                        P.append(("candidate-info-keys", "departed %r, agent %s: info for %r, expected %r" % (departed, agt, sorted(info), want_comps)))
                        continue
                    for c in want_comps:
                        cand, fixed, candn = info[c]
                        w_cand = sorted(a for a in st["replicas"][c] if a not in dep)
                        w_fixed = {n: st["host"][n] for n in nb[c] if n not in orphaned}
                        w_candn = {n: sorted(a for a in st["replicas"][n] if a not in dep) for n in nb[c] if n in orphaned}
                        if sorted(cand) != w_cand or len(cand) != len(set(cand)):
                            P.append(("info:candidate-agents", "departed %r, %s: candidates %r, expected %r" % (departed, c, sorted(cand), w_cand)))
                        if dict(fixed) != w_fixed:
                            P.append(("info:fixed-neighbors", "departed %r, %s: fixed neighbours %r, expected %r" % (departed, c, dict(fixed), w_fixed)))
                        if any(h in dep for h in fixed.values()):
                            P.append(("info:fixed-neighbor-on-departed-agent", "departed %r, %s: fixed neighbours %r" % (departed, c, dict(fixed))))
                        if {n: sorted(v) for n, v in candn.items()} != w_candn:
                            P.append(("info:candidate-neighbors", "departed %r, %s: candidate neighbours %r, expected %r" % (departed, c, {n: sorted(v) for n, v in candn.items()}, w_candn)))
            except Exception as e:
                P.append(("removal:exception:%s" % type(e).__name__, "departed %r raised %s: %s" % (departed, type(e).__name__, e)))
            if len(P) > 6:
                return P
    return P


def ways(con, asg, rng):
    """the same assignment handed to the constraint in different forms: keywords in scope order, keywords in another
    order, a dict in another order, and through a slice on some of the variables -> [(how, value)]"""
    out = [("kwargs", con(**asg))]
    keys = list(asg)
    rng.shuffle(keys)
    sh = {k: asg[k] for k in keys}
    out.append(("kwargs-reordered", con(**sh)))
    try:
        out.append(("dict-reordered", con.get_value_for_assignment(dict(sh))))
    except (NotImplementedError, AttributeError):
        pass
    if len(keys) >= 2:
        k = rng.randint(1, len(keys) - 1)
        fixed = {n: asg[n] for n in keys[:k]}
        rest = {n: asg[n] for n in keys[k:]}
        out.append(("slice", con.slice(fixed)(**rest)))
    return out


def all_binary(names):
    for vals in itertools.product([0, 1], repeat=len(names)):
        yield dict(zip(names, vals))


def check_constraints(rng, R):
    from pydcop.dcop.objects import BinaryVariable
    from pydcop import reparation as rep

    P = []
    agents = ["a%d" % i for i in range(1, 6)]
    comps = ["c%d" % i for i in range(1, 7)]
    footprint = {c: rng.choice([1, 2, 3, 5, 0.5]) for c in comps}
    hosting = {(c, a): rng.choice([0, 1, 4, 10, 2.5]) for c in comps for a in agents}
    commt = {}

    def comm(c, n, a):
        if (c, n, a) not in commt:
            commt[(c, n, a)] = rng.choice([0, 1, 3, 7, 20, 100])
        return commt[(c, n, a)]

    kind = rng.choice(["hosted", "capacity", "hosting", "comm"])
    W = {"constraint": kind}
    if kind == "hosted":
        c = rng.choice(comps)
        cands = rng.sample(agents, rng.randint(1, 5))
        bv = {(c, a): BinaryVariable("x_%s_%s" % (c, a)) for a in cands}
        W.update({"computation": c, "candidates": cands})
        con = rep.create_computation_hosted_constraint(c, bv)
        names = [v.name for v in bv.values()]
        for asg in all_binary(names):
            want_zero = sum(asg.values()) == 1
            bad = [(how, got) for how, got in ways(con, asg, rng) if (got == 0) != want_zero or (not want_zero and got < 1)]
            if bad:
                P.append(("hosted", "hosted(%s) on %r (%s) == %r, must be 0 iff exactly one candidate is selected" % (c, asg, bad[0][0], bad[0][1])))
                break
    elif kind == "capacity":
        a = rng.choice(agents)
        cs = rng.sample(comps, rng.randint(1, 6))
        remaining = rng.choice([0, 1, 2, 3, 5, 8, 100, 2.5])
        bv = {(c, a): BinaryVariable("x_%s_%s" % (c, a)) for c in cs}
        W.update({"agent": a, "computations": cs, "remaining": remaining, "footprints": {c: footprint[c] for c in cs}})
        con = rep.create_agent_capacity_constraint(a, remaining, lambda c: footprint[c], bv)
        for asg in all_binary([v.name for v in bv.values()]):
            used = sum(footprint[c] for c in cs if asg["x_%s_%s" % (c, a)])
            bad = [(how, got) for how, got in ways(con, asg, rng) if (got == 0) != (used <= remaining) or (used > remaining and got < 1)]
            if bad:
                P.append(("capacity", "capacity(%s, remaining %s) on %r (%s) == %r, selected footprint %s" % (a, remaining, asg, bad[0][0], bad[0][1], used)))
                break
    elif kind == "hosting":
        a = rng.choice(agents)
        cs = rng.sample(comps, rng.randint(1, 6))
        bv = {(c, a): BinaryVariable("x_%s_%s" % (c, a)) for c in cs}
        W.update({"agent": a, "computations": cs, "hosting": {c: hosting[(c, a)] for c in cs}})
        con = rep.create_agent_hosting_constraint(a, lambda c: hosting[(c, a)], bv)
        for asg in all_binary([v.name for v in bv.values()]):
            want = 0
            for c in cs:
                if asg["x_%s_%s" % (c, a)]:
                    want = want + hosting[(c, a)]
            bad = [(how, got) for how, got in ways(con, asg, rng) if abs(got - want) > 1e-9]
            if bad:
                P.append(("hosting", "hosting(%s) on %r (%s) == %r, defining sum %r" % (a, asg, bad[0][0], bad[0][1], want)))
                break
    else:
        a = rng.choice(agents)
        cand = rng.choice(comps)
        others = [c for c in comps if c != cand]
        fixedn = {n: rng.choice(agents) for n in rng.sample(others, rng.randint(0, 3))}
        candn = {}
        budget = 7
        rest = [o for o in others if o not in fixedn]
        for n in rng.sample(rest, rng.randint(0, min(3, len(rest)))):
            k = rng.randint(0, min(3, budget))
            budget -= k
            candn[n] = rng.sample(agents, k)
        info = ([a] + rng.sample([x for x in agents if x != a], rng.randint(0, 2)), fixedn, candn)
        bv = {(cand, a): BinaryVariable("x_%s_%s" % (cand, a))}
        for n, ags in candn.items():
            for g in ags:
                bv[(n, g)] = BinaryVariable("x_%s_%s" % (n, g))
        # extra variables in the table that are not in the scope
        bv[("zz", "a1")] = BinaryVariable("x_zz_a1")
        W.update({"agent": a, "candidate": cand, "fixed_neighbors": fixedn, "candidate_neighbors": candn})
        con = rep.create_agent_comp_comm_constraint(a, cand, info, comm, bv)
        scope = [v.name for v in con.dimensions]
        want_scope = sorted(["x_%s_%s" % (cand, a)] + ["x_%s_%s" % (n, g) for n, ags in candn.items() for g in ags])
        if sorted(scope) != want_scope:
            P.append(("comm:scope", "comm(%s,%s) scope %r, expected %r" % (a, cand, sorted(scope), want_scope)))
        else:
            for asg in all_binary(scope):
                x = asg["x_%s_%s" % (cand, a)]
                want = 0.0
                for n, g in fixedn.items():
                    want += x * comm(cand, n, g)
                for n, ags in candn.items():
                    for g in ags:
                        want += x * asg["x_%s_%s" % (n, g)] * comm(cand, n, g)
                bad = [(how, got) for how, got in ways(con, asg, rng) if abs(got - want) > 1e-9]
                if bad:
                    P.append(("comm:value", "comm(%s,%s) on %r (%s) == %r, defining double sum %r (fixed %r, candidate neighbours %r)" % (
                        a, cand, asg, bad[0][0], bad[0][1], want, fixedn, candn)))
                    break
        W["nvars"] = len(scope)
    R.count("constraints_checked")
    R.bump("constraint_kinds", kind)
    W.setdefault("nvars", len(W.get("candidates", W.get("computations", []))))
    return P, W


def worker(job):
    R = common.WorkerResult()
    seed = job["seed"]
    for i in range(job["lo"], job["hi"]):
        rng = common.rng_for(seed, "C26", i)
        if i % 2 == 0:
            st = gen_state(rng)
            try:
                P = check_removal(st, R, rng)
            except Exception as e:
                import traceback

                P = [("harness:exception", traceback.format_exc()[-600:])]
            orph_pairs = len(st["edges"])
            R.case(common.stable_hash(st), len(st["comps"]) >= 2 and orph_pairs >= 1,
                   sample={"state": st} if i % 80 == 0 else None)
            W = {"state": st}
        else:
            try:
                P, W = check_constraints(rng, R)
            except Exception as e:
                import traceback

                tb = traceback.format_exc()
                # an exception whose innermost frame is in pydcop is an observation; anything else is a harness failure
                inner = [l for l in tb.splitlines() if l.strip().startswith("File ")][-1]
                key = "constraints:exception:%s" % type(e).__name__ if "/pydcop/" in inner else "harness:exception"
                P, W = [(key, tb[-600:])], {"index": i}
            R.case(common.stable_hash(W), W.get("nvars", 0) >= 3, sample=W if i % 81 == 0 else None)
        seen = set()
        for k, m in P:
            if k in seen:
                continue
            seen.add(k)
            R.violation(k, m, W)
    return R


def main(chk, tier, seed):
    chk.rule = RULE
    chk.extra["exhaustive_within_case"] = "all departed subsets / all binary assignments of each generated instance"
    n = 6000 if tier == "quick" else 250000
    common.run_chunked(chk, "c26", n, nchunks=16 if tier == "quick" else 64, timeout=3000)
    chk.inconclusive_if(len(chk.extra.get("constraint_kinds", {})) < 4, "not all four constraint kinds exercised")
    chk.inconclusive_if(chk.counters.get("departed_subsets_checked", 0) < 1000, "too few departed subsets")


def replay(payload):
    w = payload["witness"]
    if "state" in w:
        R = common.WorkerResult()
        P = check_removal(w["state"], R)
        print("replay:", P[:3])
        if P:
            print("VIOLATION property=C26 replay=(replayed)")
            return 1
        return 0
    print(payload["what"])
    print("VIOLATION property=C26 replay=(recorded witness)")
    return 1

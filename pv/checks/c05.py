"""C05 - Max-Sum without damping is exact on acyclic factor graphs (Engine A)."""
import random as _r

from pv import common, gen, detsched

RULE = ("seeded acyclic factor graphs (trees and forests, 1-7 variables, domains 2-3, unary/binary/ternary factors, "
        "variable costs, integer tables, min and max; a fifth are agreement chains of 4-7 two-valued variables with side leaves, a weak preference near one end and a contradicting one exactly twice as strong at the far end) with a UNIQUE optimum enforced by brute force; run with "
        "maxsum (synchronous) and amaxsum, damping=0 noise=0, start_messages leafs/leafs_vars/all, other "
        "parameters default; budget: 4*(diameter+SAME_COUNT+3) rounds (sync) / quiescence or 300*#links "
        "deliveries (async); non-trivial = factor-graph diameter >= 3 and >= 2 factors; distinct by "
        "hash(instance, algo, params, schedule)")

SAME_COUNT = 4


def run_one(case, algo, start_messages, sched_seed, bias=None, choices=None, stability=None):
    dcop = gen.build_dcop(case)
    detsched.seed_algo_rngs(sched_seed)
    params = {"damping": 0.0, "noise": 0.0, "start_messages": start_messages}
    if stability is not None:
        params["stability"] = stability
    comps, graph, _ = detsched.build_computations(algo, dcop, params=params)
    pool = detsched.Pool(sched_seed, choices=choices)
    rng = _r.Random(sched_seed * 7919 + 1)
    names = [c.name for c in comps]
    if bias is None:
        detsched.choose_bias(rng, pool, names)
    else:
        pool.bias, pool.bias_target, pool.late_until = bias["bias"], bias.get("target"), bias.get("late_until", 0)
    for c in comps:
        pool.add(c)
    diam = gen.factor_graph_diameter(case)
    nlinks = sum(len(list(c.neighbors)) for c in comps)
    if algo == "maxsum":
        rounds = 4 * (diam + SAME_COUNT + 3)
        withnb = [c for c in comps if c.neighbors]

        def stop():
            return len(pool.started) == len(comps) and all(c.current_cycle >= rounds for c in withnb)

        status = pool.run(rounds * (nlinks + len(comps)) * 30 + 500, stop=stop)
    else:
        status = pool.run(300 * max(1, nlinks) + 100)
    res = {"status": status, "problems": [], "diameter": diam, "delivered": pool.delivered,
           "bias": {"bias": pool.bias, "target": pool.bias_target, "late_until": pool.late_until}}
    P = res["problems"]
    if pool.errors:
        P.append(("handler-exception", "step %s raised %s" % (pool.errors[0][0], pool.errors[0][1]), pool.errors[0][2]))
    else:
        asg = {}
        for c in comps:
            if hasattr(c, "current_value") and hasattr(c, "variable"):
                asg[c.name] = c.current_value
        res["assignment"] = asg
        want = case["optimal_assignment"]
        wrong = {n: (asg.get(n), want[n]) for n in want if asg.get(n) != want[n]}
        if wrong:
            got_cost = None
            if all(asg.get(n) is not None for n in want):
                got_cost = gen.total_cost(case, asg)
            key = "wrong-assignment-at-quiescence" if status == "quiescent" else "wrong-assignment-after-budget"
            P.append((key, "%s(%s) %s: selected != unique optimum for %s (cost %r vs optimum %r) after %d deliveries, pool %s" % (
                algo, start_messages, case["objective"], wrong, got_cost, case["optimum"], pool.delivered, status), None))
    res["trace"] = list(pool.trace)
    return res, pool


def worker(job):
    R = common.WorkerResult()
    seed, tier = job["seed"], job["tier"]
    for i in range(job["lo"], job["hi"]):
        rng = common.rng_for(seed, "C05", i)
        if i % 5 == 4:
            # long agreement chains where a strong far-away preference overrides a weak near one
            case = gen.gen_propagation_chain_case(rng)
        else:
            case = gen.gen_tree_factor_case(rng, max_vars=7 if rng.random() < 0.6 else 5)
        if case is None:
            R.count("no_unique_optimum_instance")
            continue
        csig = gen.case_sig(case)
        for s in range(job["nsched"]):
            algo = rng.choice(["maxsum", "amaxsum"])
            sm = rng.choice(["leafs", "leafs_vars", "all"])
            sseed = (seed * 1000003 + i * 101 + s) & 0x7FFFFFFF
            stability = rng.choice([None, None, 0.0])
            res, pool = run_one(case, algo, sm, sseed, stability=stability)
            R.bump("stability", "default(0.1)" if stability is None else "0.0")
            R.bump("families", case.get("shape", "?"))
            nontrivial = res["diameter"] >= 3 and len(case["constraints"]) >= 2
            R.case(common.stable_hash([csig, algo, sm, res["trace"]]), nontrivial,
                   sample={"case": case, "algo": algo, "start_messages": sm, "bias": res["bias"],
                           "schedule_head": res["trace"][:30], "assignment": res.get("assignment"),
                           "deliveries": res["delivered"]} if nontrivial else None)
            R.count("messages_delivered", res["delivered"])
            R.count("runs_" + algo)
            R.count("assignment_compared_with_unique_optimum", 0 if any(p[0] == "handler-exception" for p in res["problems"]) else 1)
            R.bump("start_messages", sm)
            R.bump("objectives", case["objective"])
            R.bump("diameters", str(res["diameter"]))
            for p in res["problems"]:
                key = "%s:%s:%s" % (algo, sm, p[0])
                if p[0].startswith("wrong-assignment") and stability is None:
                    # differential classification: the same instance under the same schedule seed with the
                    # stability cut-off disabled (stability=0: only exactly repeated messages are suppressed)
                    res0, _ = run_one(case, algo, sm, sseed, stability=0.0)
                    R.count("differential_reruns_without_cutoff")
                    if not res0["problems"]:
                        key = "maxsum:stability-cutoff-suppresses-final-update"
                R.violation(key, p[1],
                            {"case": case, "algo": algo, "start_messages": sm, "sched_seed": sseed, "bias": res["bias"],
                             "choices": res["trace"], "trace": p[2], "stability": stability})
    return R


def main(chk, tier, seed):
    chk.rule = RULE
    chk.assumptions = ["unique optimum enforced by the generator (brute force)", "damping 0, noise 0, other parameters default",
                       "per-channel FIFO; synchronous rounds are enforced by the mixin itself"]
    n = 1000 if tier == "quick" else 16000
    common.run_chunked(chk, "c05", n, nchunks=16 if tier == "quick" else 64,
                       job_extra={"nsched": 3 if tier == "quick" else 5}, timeout=3000)
    for a in ("maxsum", "amaxsum"):
        chk.inconclusive_if(chk.counters.get("runs_" + a, 0) < 100, "too few %s runs" % a)


def replay(payload):
    w = payload["witness"]
    res, pool = run_one(w["case"], w["algo"], w["start_messages"], w["sched_seed"], bias=w["bias"], choices=list(w["choices"]),
                        stability=w.get("stability"))
    print("replay: status=%s problems=%s" % (res["status"], [(p[0], p[1]) for p in res["problems"]]))
    if res["problems"]:
        print("VIOLATION property=C05 replay=(replayed)")
        return 1
    return 0

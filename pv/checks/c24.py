"""C24 - optimal distribution methods return cost-minimal distributions (Engine C)."""
import itertools

from pv import common, distgen

RULE = ("tiny instances (<= 5 computations, <= 3 agents; constraints hyper-graph for oilp_cgdp, factor graph for "
        "ilp_fgdp), harness footprints / symmetric communication loads, capacities ample / exact / small, hosting costs "
        "with zeros, routes symmetric or (50%) with agent tables disagreeing on a link's cost; the ILP models are solved by PuLP's bundled CBC (GLPK_CMD rebound: glpsol is not "
        "installed); oracle: brute-force enumeration of ALL mappings satisfying the method's hard rules (capacity, every "
        "computation once, cost-0 pins, and for ilp_fgdp every agent hosts something), minimum of the method's OWN "
        "distribution_cost; the returned distribution's cost must equal it (1e-6) and Impossible must mean no feasible "
        "mapping; non-trivial = >= 2 agents, >= 3 computations and >= 2 feasible mappings with different costs; distinct "
        "by hash(instance, method)")


def feasible_mappings(inst, method, names):
    agents = inst["agents"]
    fp = inst["footprints"]
    anames = [a["name"] for a in agents]
    cap = {a["name"]: a["capacity"] for a in agents}
    hc = lambda a, c: a["hosting_costs"].get(c, a["default_hosting_cost"])
    pins = {}
    infeasible = False
    for c in names:
        zs = [a["name"] for a in agents if hc(a, c) == 0]
        if method == "oilp_cgdp":
            if len(zs) == 1:
                pins[c] = zs[0]
            elif len(zs) > 1:
                infeasible = True
        else:  # ilp_fgdp: pinned on the first agent with a cost of 0
            if zs:
                pins[c] = zs[0]
    if infeasible:
        return
    free = [c for c in names if c not in pins]
    for combo in itertools.product(anames, repeat=len(free)):
        m = dict(pins)
        m.update(zip(free, combo))
        used = {a: 0 for a in anames}
        for c, a in m.items():
            used[a] += fp[c]
        if any(used[a] > cap[a] + 1e-9 for a in anames):
            continue
        if method == "ilp_fgdp" and any(not any(x == a for x in m.values()) for a in anames):
            continue
        yield m


def check(inst, method):
    from importlib import import_module
    from pydcop.distribution.objects import ImpossibleDistributionException, Distribution

    mod = import_module("pydcop.distribution." + method)
    dcop, cg, agents, cm, cl, hints = distgen.build(inst)
    names = [n.name for n in cg.nodes]
    outcome, got_cost, got_map = None, None, None
    try:
        with distgen.quiet():
            dist = mod.distribute(cg, agents, computation_memory=cm, communication_load=cl)
        got_map = {a: list(cs) for a, cs in dist.mapping().items()}
        got_cost = mod.distribution_cost(dist, cg, agents, cm, cl)[0]
        outcome = "mapping"
    except ImpossibleDistributionException:
        outcome = "impossible"
    except TimeoutError:
        return [], "timeout", {}
    except Exception as e:
        if "PulpSolverError" in type(e).__name__ and "Error while executing" not in str(e):
            return [], "solver-unavailable", {}
        import traceback

        return [("%s:exception:%s" % (method, type(e).__name__), "%s raised %s: %s" % (method, type(e).__name__, str(e)[:200]))], "exception", {}
    costs = []
    best, best_map = None, None
    for m in feasible_mappings(inst, method, names):
        am = {}
        for c, a in m.items():
            am.setdefault(a, []).append(c)
        for a in [x["name"] for x in inst["agents"]]:
            am.setdefault(a, [])
        c = mod.distribution_cost(Distribution(am), cg, agents, cm, cl)[0]
        costs.append(c)
        if best is None or c < best - 1e-12:
            best, best_map = c, m
    info = {"feasible": len(costs), "distinct_costs": len({round(c, 6) for c in costs}), "best": best, "got": got_cost}
    P = []
    if outcome == "impossible":
        if costs:
            # declaring impossibility where a distribution exists is a conservative (allowed) answer for C23, but C24's
            # optimum exists: report it under its own key
            P.append(("%s:impossible-although-feasible" % method, "%s raised Impossible but %d feasible mappings exist, e.g. %r (cost %r)" % (
                method, len(costs), best_map, best)))
        return P, outcome, info
    if best is None:
        P.append(("%s:mapping-outside-hard-rules" % method, "%s returned %r but no mapping satisfies its hard rules" % (method, got_map)))
        return P, outcome, info
    if got_cost > best + 1e-6 * max(1.0, abs(best)):
        P.append(("%s:not-minimal" % method, "%s returned %r with distribution_cost %r, but %r costs %r" % (method, got_map, got_cost, best_map, best)))
    elif got_cost < best - 1e-6 * max(1.0, abs(best)):
        P.append(("%s:mapping-outside-hard-rules" % method, "%s returned %r (cost %r) cheaper than every mapping satisfying its hard rules (best %r)" % (
            method, got_map, got_cost, best)))
    return P, outcome, info


def shape_instance(rng, inst):
    """bias towards instances where the optimum is not trivial: >= 2 agents, room for several mappings, pinned
    computations that communicate with free ones, contrasted route costs"""
    names = sorted(inst["footprints"])
    while len(inst["agents"]) < 2:
        inst["agents"].append(dict(inst["agents"][0], name="a%d" % len(inst["agents"]), routes={}, hosting_costs={}))
    anames = [a["name"] for a in inst["agents"]]
    total = sum(inst["footprints"].values())
    if rng.random() < 0.7:
        for a in inst["agents"]:
            a["capacity"] = rng.choice([total, total + 5, max(3, total // 2 + 2)])
    # routes: contrasted; symmetric, or (half of the instances) each agent's own table gives its own cost for a link
    asym = rng.random() < 0.5
    inst["asymmetric_routes"] = asym
    for a in inst["agents"]:
        a["routes"] = {}
    for i, x in enumerate(anames):
        for y in anames[i + 1:]:
            r = rng.choice([1, 3, 9, 20])
            inst["agents"][i]["routes"][y] = r
            inst["agents"][anames.index(y)]["routes"][x] = rng.choice([1, 3, 9, 20]) if asym else r
    mode = rng.choice(["pins", "pins", "nonzero", "default0"])
    for a in inst["agents"]:
        a["default_hosting_cost"] = 0 if mode == "default0" else rng.choice([1, 2, 5])
        a["hosting_costs"] = {n: rng.choice([1, 4, 10, 25]) for n in names if rng.random() < 0.5}
    if mode == "pins" and names:
        for n in rng.sample(names, rng.randint(1, max(1, len(names) // 2))):
            owner = rng.choice(inst["agents"])
            for a in inst["agents"]:
                if a is owner:
                    a["hosting_costs"][n] = 0
                elif a["hosting_costs"].get(n, a["default_hosting_cost"]) == 0:
                    a["hosting_costs"][n] = 3
    inst["zero_mode"] = mode


def worker(job):
    R = common.WorkerResult()
    seed = job["seed"]
    distgen.install_cbc()
    for i in range(job["lo"], job["hi"]):
        rng = common.rng_for(seed, "C24", i)
        method = ["oilp_cgdp", "ilp_fgdp"][i % 2]
        inst = distgen.gen_instance(rng, graph="constraints_hypergraph" if method == "oilp_cgdp" else "factor_graph", tiny=True, asymmetric_routes=True)
        inst["hints"] = {"must_host": {}, "host_with": {}}
        shape_instance(rng, inst)
        cons = inst["case"]["constraints"]
        multi = [c for c in cons if len(c["scope"]) >= 2]
        if method == "oilp_cgdp" and multi and rng.random() < 0.4:
            # a second constraint over the same variables: two links of the hyper-graph share their couples of computations
            c = dict(rng.choice(multi))
            c["name"] = c["name"] + "_bis"
            cons.append(c)
        couples = [p for c in cons for p in itertools.combinations(sorted(c["scope"]), 2)]
        R.count("instances_with_links_sharing_a_couple_of_computations", 1 if len(couples) != len(set(couples)) else 0)
        try:
            P, outcome, info = check(inst, method)
        except Exception as e:
            import traceback

            R.violation("harness:exception", traceback.format_exc()[-700:], {"instance": inst})
            continue
        nontrivial = len(inst["agents"]) >= 2 and len(inst["footprints"]) >= 3 and info.get("distinct_costs", 0) >= 2
        R.case(common.stable_hash([inst, method]), nontrivial,
               sample={"method": method, "outcome": outcome, "info": info, "agents": inst["agents"], "footprints": inst["footprints"]} if nontrivial and i % 30 == 0 else None)
        R.bump("outcomes", "%s:%s" % (method, outcome))
        R.bump("routes", "asymmetric" if inst.get("asymmetric_routes") else "symmetric")
        R.count("mappings_enumerated", info.get("feasible", 0))
        R.count("optimum_compared", 1 if outcome == "mapping" else 0)
        for k, m in P:
            R.violation(k, m, {"instance": inst, "method": method})
    return R


def main(chk, tier, seed):
    chk.rule = RULE
    chk.assumptions = ["CBC substituted for the missing glpsol binary", "symmetric communication loads", "at most one agent with an explicit cost 0 per computation, or default 0 everywhere"]
    n = 640 if tier == "quick" else 8000
    common.run_chunked(chk, "c24", n, nchunks=16 if tier == "quick" else 64, timeout=3000)
    chk.inconclusive_if(chk.counters.get("optimum_compared", 0) < 60 and not chk.violations, "too few optimal distributions compared")


def replay(payload):
    w = payload["witness"]
    distgen.install_cbc()
    P, outcome, info = check(w["instance"], w["method"])
    print("replay:", outcome, info, P[:2])
    if P:
        print("VIOLATION property=C24 replay=(replayed)")
        return 1
    return 0

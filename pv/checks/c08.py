"""C08 - synchronous computations run in proper rounds under any async order (Engine A)."""
import random as _r

from pv import common, gen, detsched

RULE = ("(a) harness-defined probe algorithm on the real SynchronousComputationMixin+DcopComputation over random "
        "graphs (1-7 nodes, any degree incl. 0): each round every node sends a uniquely numbered message to a "
        "random subset of neighbours (a fifth of them relays of a message object just received), through the returned list or post_msg; (b) 15% of the computations are paused, started while paused and resumed; (c) the real maxsum (start_messages leafs / leafs_vars / all) and dsatuto "
        "computations on generated DCOPs; random FIFO schedules with biases; oracle over the send log: round ids "
        "0,1,2.. without gap, on_new_cycle(messages, i) gets exactly the algorithm messages tagged i (same objects), "
        "every other neighbour sent exactly one sync tagged i; no ComputationException; non-trivial = >= 3 "
        "computations, >= 4 rounds and >= 1 message delivered one round ahead (buffered); distinct by "
        "hash(graph, algo, schedule)")


def make_probe_class():
    from pydcop.infrastructure.computations import SynchronousComputationMixin, DcopComputation, message_type, register

    ProbeMsg = message_type("probe", ["pid"])

    class Probe(SynchronousComputationMixin, DcopComputation):
        def __init__(self, comp_def, rng, counter):
            super().__init__(comp_def.node.name, comp_def)
            self.prng = rng
            self.counter = counter

        @register("probe")
        def on_probe(self, sender, msg, t):
            pass

        def _pick(self):
            nbs = list(self.neighbors)
            mode = self.prng.random()
            if mode < 0.15:
                return []
            if mode < 0.3:
                return nbs
            return [n for n in nbs if self.prng.random() < 0.5]

        def _mk(self):
            self.counter[0] += 1
            return ProbeMsg("%s#%d" % (self.name, self.counter[0]))

        def on_start(self):
            for n in self._pick():
                self.post_msg(n, self._mk())

        def on_new_cycle(self, messages, cycle_id):
            out = []
            received = [m for (m, _t) in messages.values()]
            for n in self._pick():
                # a fifth of the messages are relays: the very message object received in this round is sent on
                # (each object is relayed at most once, so it is never in two places at a time: in-process delivery is
                # by reference and a message sent to two destinations is one shared mutable object)
                msg = received.pop(self.prng.randrange(len(received))) if received and self.prng.random() < 0.2 else self._mk()
                if self.prng.random() < 0.5:
                    out.append((n, msg))
                else:
                    self.post_msg(n, msg)
            return out if (out or self.prng.random() < 0.5) else None

    return Probe, ProbeMsg


def gen_graph(rng):
    n = rng.randint(1, 7)
    names = ["p%d" % i for i in range(n)]
    rng.shuffle(names)
    shape = rng.choice(["chain", "star", "tree", "cycle", "clique", "random", "components", "isolated"])
    scopes = gen.gen_structure(rng, names, shape)
    adj = {x: set() for x in names}
    for a, b in scopes:
        adj[a].add(b)
        adj[b].add(a)
    return {n_: sorted(v) for n_, v in adj.items()}, shape


def build_probe(adj, rng):
    from pydcop.algorithms import AlgorithmDef, ComputationDef
    from pydcop.computations_graph.objects import ComputationNode

    Probe, _ = make_probe_class()
    counter = [0]
    ad = AlgorithmDef("probe", {}, "min")
    comps = []
    for name, nbs in adj.items():
        node = ComputationNode(name, "probe", neighbors=list(nbs))
        comps.append(Probe(ComputationDef(node, ad), _r.Random(rng.random()), counter))
    return comps


class RoundMonitor:
    """Oracle over the send log (works for any computation using the mixin)."""

    def __init__(self, pool, comps):
        from pydcop.infrastructure.computations import SynchronizationMsg

        self.Sync = SynchronizationMsg
        self.pool = pool
        self.comps = {c.name: c for c in comps}
        self.sent = {}  # (dest, src, tag) -> [msg]
        self.rounds = {c.name: [] for c in comps}
        self.problems = []
        self.ahead = 0
        self.handled = 0
        pool.observers.append(self.observe)
        for c in comps:
            self._wrap(c)

    def observe(self, kind, data):
        if kind == "send":
            src, dest, msg, prio, mid = data
            if prio is not None and 18 < prio <= 19:  # re-injection by the destination itself, not a new message
                return
            self.sent.setdefault((dest, src, getattr(msg, "cycle_id", None)), []).append(msg)
        elif kind == "deliver":
            src, dest, msg, mid = data
            c = self.comps.get(dest)
            if c is not None and dest in self.pool.started and getattr(msg, "cycle_id", None) == c.current_cycle + 1:
                self.ahead += 1

    def _wrap(self, comp):
        orig = comp.on_new_cycle
        mon = self

        def wrapper(messages, cycle_id):
            mon.check(comp, messages, cycle_id)
            return orig(messages, cycle_id)

        comp.on_new_cycle = wrapper

    def check(self, comp, messages, cycle_id):
        self.handled += 1
        name = comp.name
        seq = self.rounds[name]
        if seq and cycle_id != seq[-1] + 1 or (not seq and cycle_id != 0):
            self.problems.append(("round-gap", "%s handed round %r after rounds %s" % (name, cycle_id, seq[-3:])))
        seq.append(cycle_id)
        nbs = list(comp.neighbors)
        for s in messages:
            if s not in nbs:
                self.problems.append(("message-from-non-neighbour", "%s got a message from %s in round %d" % (name, s, cycle_id)))
        for n in nbs:
            sent = self.sent.get((name, n, cycle_id), [])
            algo = [m for m in sent if not isinstance(m, self.Sync)]
            if len(sent) != 1:
                self.problems.append(("not-one-message-per-neighbour",
                                      "%s round %d: neighbour %s sent %d messages tagged %d (%s)" % (
                                          name, cycle_id, n, len(sent), cycle_id, [m.type for m in sent])))
                continue
            if algo:
                got = messages.get(n)
                if got is None or got[0] is not algo[0]:
                    self.problems.append(("wrong-message-handed",
                                          "%s round %d: expected %r from %s, handed %r" % (
                                              name, cycle_id, algo[0], n, got)))
            elif n in messages:
                self.problems.append(("sync-handed-as-message", "%s round %d: got %r from %s which only sent a sync" % (
                    name, cycle_id, messages[n], n)))


def run_one(spec, sched_seed, bias=None, choices=None, rounds=8):
    detsched.seed_algo_rngs(sched_seed)
    rng = _r.Random(sched_seed * 31 + 7)
    if spec["kind"] == "probe":
        comps = build_probe(spec["adj"], rng)
    else:
        dcop = gen.build_dcop(spec["case"])
        params = {"damping": 0.0, "noise": 0.0} if spec["kind"] == "maxsum" and rng.random() < 0.5 else {}
        if spec["kind"] == "maxsum":
            params["start_messages"] = rng.choice(["leafs", "leafs_vars", "all"])
        comps, _, _ = detsched.build_computations(spec["kind"], dcop, params=params,
                                                  mode="min" if spec["kind"] == "dsatuto" else None)
    pool = detsched.Pool(sched_seed, choices=choices)
    r2 = _r.Random(sched_seed * 7919 + 1)
    if bias is None:
        detsched.choose_bias(r2, pool, [c.name for c in comps])
    else:
        pool.bias, pool.bias_target, pool.late_until = bias["bias"], bias.get("target"), bias.get("late_until", 0)
    mon = RoundMonitor(pool, comps)
    for c in comps:
        pool.add(c)
        if rng.random() < 0.15:
            pool.paused_start.add(c.name)  # paused, started, resumed
    withnb = [c for c in comps if list(c.neighbors)]
    nlinks = sum(len(list(c.neighbors)) for c in comps)

    def stop():
        return len(pool.started) == len(comps) and all(c.current_cycle >= rounds for c in withnb)

    status = pool.run(rounds * (nlinks + len(comps)) * 40 + 500, stop=stop)
    problems = list(mon.problems)
    if pool.errors:
        e = pool.errors[0]
        key = "computation-exception" if "ComputationException" in e[1] else "handler-exception"
        problems.append((key, "step %s raised %s" % (e[0], e[1])))
    elif status != "stopped":
        lag = {c.name: c.current_cycle for c in withnb}
        problems.append(("rounds-stalled", "pool %s before every computation reached round %d: %s (pending %d)" % (
            status, rounds, lag, pool.pending())))
    return {"status": status, "problems": problems, "ahead": mon.ahead, "handled": mon.handled,
            "rounds": max([c.current_cycle for c in withnb] or [0]), "trace": list(pool.trace), "n": len(comps),
            "delivered": pool.delivered, "bias": {"bias": pool.bias, "target": pool.bias_target, "late_until": pool.late_until}}


def make_spec(rng):
    kind = rng.choice(["probe", "probe", "maxsum", "dsatuto"])
    if kind == "probe":
        adj, shape = gen_graph(rng)
        return {"kind": "probe", "adj": adj, "shape": shape}
    case = gen.gen_case(rng, min_vars=1, max_vars=5, max_dom=3, palettes=("ties", "distinct"), max_space=300,
                        var_costs=(kind == "maxsum"))
    return {"kind": kind, "case": case, "shape": case["shape"]}


def worker(job):
    R = common.WorkerResult()
    seed = job["seed"]
    for i in range(job["lo"], job["hi"]):
        rng = common.rng_for(seed, "C08", i)
        spec = make_spec(rng)
        ssig = common.stable_hash(spec)
        for s in range(job["nsched"]):
            sseed = (seed * 1000003 + i * 101 + s) & 0x7FFFFFFF
            rounds = rng.randint(4, 10)
            res = run_one(spec, sseed, rounds=rounds)
            nontrivial = res["n"] >= 3 and res["rounds"] >= 4 and res["ahead"] >= 1
            R.case(common.stable_hash([ssig, res["trace"]]), nontrivial,
                   sample={"spec": spec, "bias": res["bias"], "rounds": res["rounds"], "ahead_buffered": res["ahead"],
                           "schedule_head": res["trace"][:30]} if nontrivial else None)
            R.count("on_new_cycle_calls_checked", res["handled"])
            R.count("ahead_buffered", res["ahead"])
            R.count("messages_delivered", res["delivered"])
            R.bump("kinds", spec["kind"])
            R.bump("biases", res["bias"]["bias"])
            for p in res["problems"]:
                R.violation("%s:%s" % (spec["kind"], p[0]), p[1],
                            {"spec": spec, "sched_seed": sseed, "bias": res["bias"], "choices": res["trace"], "rounds": rounds})
    # NCBB also uses the mixin: try to build it once so that evidence says whether it could be exercised
    try:
        rng = common.rng_for(seed, "C08-ncbb", job["lo"])
        case = gen.gen_case(rng, nvars=4, binary_only=True, var_costs=False, shapes=("tree",), palettes=("ties",))
        dcop = gen.build_dcop(case)
        comps, _, _ = detsched.build_computations("ncbb", dcop)
        res = None
        pool = detsched.Pool(seed)
        mon = RoundMonitor(pool, comps)
        for c in comps:
            pool.add(c)
        pool.run(400)
        R.count("ncbb_on_new_cycle_calls_checked", mon.handled)
        if pool.errors:
            R.bump("ncbb_skipped", pool.errors[0][1][:80])
        for p in mon.problems:
            R.violation("ncbb:%s" % p[0], p[1], {"case": case})
    except Exception as e:  # module cannot run on this interpreter: reported, not a verdict
        R.bump("ncbb_skipped", "%s: %s" % (type(e).__name__, str(e)[:60]))
    return R


def main(chk, tier, seed):
    chk.rule = RULE
    chk.assumptions = ["per-channel FIFO delivery", "messages passed by reference (thread mode)",
                       "NCBB is only attempted; see ncbb_skipped / ncbb_on_new_cycle_calls_checked in coverage"]
    n = 2100 if tier == "quick" else 100000
    common.run_chunked(chk, "c08", n, nchunks=16 if tier == "quick" else 64,
                       job_extra={"nsched": 3 if tier == "quick" else 5}, timeout=3000)
    chk.inconclusive_if(chk.counters.get("ahead_buffered", 0) < 50, "next-round buffering hardly exercised")
    chk.inconclusive_if(chk.counters.get("on_new_cycle_calls_checked", 0) < 1000, "too few rounds observed")


def replay(payload):
    w = payload["witness"]
    res = run_one(w["spec"], w["sched_seed"], bias=w["bias"], choices=list(w["choices"]), rounds=w.get("rounds", 8))
    print("replay: status=%s problems=%s" % (res["status"], res["problems"][:5]))
    if res["problems"]:
        print("VIOLATION property=C08 replay=(replayed)")
        return 1
    return 0

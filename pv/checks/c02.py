"""C02 - SyncBB finds the optimum of every binary-constraint DCOP (Engine A)."""
import random as _r

from pv import common, gen, detsched

RULE = ("seeded binary DCOPs (2-6 vars, domains 1-4, all shapes incl. unconstrained variables and duplicate "
        "scopes, variable cost functions in 30 % of the instances, declared initial values in half of the instances, palettes incl. integers around 2^62 whose sums exceed 64 bits; a quarter of the runs push every message through the json wire format); costs >= 0 in min mode (branch-and-bound on partial costs presupposes "
        "monotone accumulation), arbitrary sign in max mode; each instance under random start orders / FIFO "
        "schedules; non-trivial = >=2 variables, >=1 binary constraint and >=1 backward message; distinct by "
        "hash(instance, schedule)")


def run_one(case, sched_seed, bias=None, choices=None, wire=False):
    dcop = gen.build_dcop(case)
    detsched.seed_algo_rngs(sched_seed)
    comps, graph, _ = detsched.build_computations("syncbb", dcop)
    # wire: every message goes through simple_repr -> json -> from_repr, as between processes (values are then equal
    # but no longer identical objects)
    pool = detsched.Pool(sched_seed, choices=choices, wire=wire)
    rng = _r.Random(sched_seed * 7919 + 1)
    names = [c.name for c in comps]
    if bias is None:
        detsched.choose_bias(rng, pool, names)
    else:
        pool.bias, pool.bias_target, pool.late_until = bias["bias"], bias.get("target"), bias.get("late_until", 0)
    kinds = {}

    def ob(kind, data):
        if kind == "deliver":
            kinds[data[2].type] = kinds.get(data[2].type, 0) + 1

    pool.observers.append(ob)
    for c in comps:
        pool.add(c)
    space = 1
    for v in case["variables"]:
        space *= len(v["domain"])
    budget = space * len(comps) * 6 + 200
    status = pool.run(budget)
    res = {"status": status, "kinds": kinds, "problems": [],
           "bias": {"bias": pool.bias, "target": pool.bias_target, "late_until": pool.late_until}}
    P = res["problems"]
    if pool.errors:
        P.append(("handler-exception", "step %s raised %s" % (pool.errors[0][0], pool.errors[0][1]), pool.errors[0][2]))
    elif status == "budget":
        P.append(("budget-exhausted", "still running after %d steps" % budget, None))
    else:
        order = sorted(names)
        first = order[0]
        notfin = [n for n in names if not pool.finished.get(n)]
        if not pool.finished.get(first):
            P.append(("first-not-finished", "first computation %s never finished (quiescent, pending=%d)" % (
                first, pool.pending()), None))
        elif notfin:
            P.append(("terminate-not-propagated", "computations %s never received terminate/finished" % notfin, None))
        twice = [n for n in names if len(pool.finished.get(n, [])) > 1]
        if twice:
            P.append(("finished-twice", "computations %s finished more than once" % twice, None))
    asg = {c.name: c.current_value for c in comps}
    res["assignment"] = asg
    if not P:
        vm = gen.var_map(case)
        bad = [n for n, v in asg.items() if v is None or v not in vm[n]["domain"]]
        if bad:
            P.append(("no-value", "no domain value held at termination for %s: %r" % (bad, asg), None))
        else:
            best, _ = gen.brute_force(case)
            got = gen.total_cost(case, asg)
            res["cost"], res["optimum"] = got, best
            if not gen.close(got, best):
                key = "suboptimal"
                if any(v.get("costs") for v in case["variables"]):
                    # mechanism of the known finding: the assignment is optimal for the constraints alone, the cost
                    # functions of the variables were left out of the search
                    import copy

                    bare = copy.deepcopy(case)
                    for v in bare["variables"]:
                        v["costs"] = None
                    if gen.close(gen.total_cost(bare, asg), gen.brute_force(bare)[0]):
                        key = "variable-costs-ignored"
                P.append((key, "SyncBB %s cost %r != optimum %r, assignment %r%s" % (
                    case["objective"], got, best, asg, " (optimal for the constraints without the variables' own costs)" if key != "suboptimal" else ""), None))
    res["trace"] = list(pool.trace)
    res["delivered"] = pool.delivered
    return res, pool


def make_case(rng, tier):
    objective = rng.choice(["min", "max"])
    pal = ("ties", "distinct", "float", "hard", "int62") if objective == "min" else ("ties", "distinct", "float", "neg", "hard", "int62")
    case = gen.gen_case(rng, min_vars=1, max_vars=6 if tier == "thorough" else 5, max_dom=4 if rng.random() < 0.3 else 3,
                        palettes=pal, objective=objective, binary_only=True, var_costs=rng.random() < 0.3, max_space=1500,
                        initial=rng.random() < 0.5)
    return case


def worker(job):
    R = common.WorkerResult()
    seed, tier = job["seed"], job["tier"]
    for i in range(job["lo"], job["hi"]):
        rng = common.rng_for(seed, "C02", i)
        case = make_case(rng, tier)
        csig = gen.case_sig(case)
        for s in range(job["nsched"]):
            sseed = (seed * 1000003 + i * 101 + s) & 0x7FFFFFFF
            wire = (i + s) % 4 == 3
            res, pool = run_one(case, sseed, wire=wire)
            R.bump("transport", "json wire" if wire else "by reference")
            nontrivial = bool(case["constraints"]) and res["kinds"].get("backward", 0) >= 1 and len(case["variables"]) >= 2
            R.case(common.stable_hash([csig, res["trace"]]), nontrivial,
                   sample={"case": case, "bias": res["bias"], "schedule_head": res["trace"][:30],
                           "assignment": res["assignment"], "cost": res.get("cost"), "optimum": res.get("optimum"),
                           "messages": res["kinds"]} if nontrivial else None)
            R.count("messages_delivered", res["delivered"])
            for k, v in res["kinds"].items():
                R.count("delivered_" + k, v)
            R.count("optimum_compared", 1 if "optimum" in res else 0)
            R.bump("objectives", case["objective"])
            R.bump("shapes", case["shape"])
            for p in res["problems"]:
                R.violation("syncbb:%s:%s" % (case["objective"], p[0]), p[1],
                            {"case": case, "sched_seed": sseed, "bias": res["bias"], "choices": res["trace"], "trace": p[2], "wire": wire})
    return R


def main(chk, tier, seed):
    chk.rule = RULE
    chk.assumptions = ["min-mode instances have non-negative costs; max-mode arbitrary", "brute-force optimum oracle",
                       "per-channel FIFO delivery"]
    n = 4000 if tier == "quick" else 120000
    common.run_chunked(chk, "c02", n, nchunks=16 if tier == "quick" else 64,
                       job_extra={"nsched": 2 if tier == "quick" else 3}, timeout=3000)
    chk.inconclusive_if(chk.counters.get("optimum_compared", 0) < n // 2 and not chk.violations and not chk.known_seen,
                        "optimum compared on too few runs")
    chk.inconclusive_if(chk.counters.get("delivered_terminate", 0) < 10, "terminate flood hardly observed")


def replay(payload):
    w = payload["witness"]
    res, pool = run_one(w["case"], w["sched_seed"], bias=w["bias"], choices=list(w["choices"]), wire=w.get("wire", False))
    print("replay: status=%s problems=%s" % (res["status"], [(p[0], p[1]) for p in res["problems"]]))
    if res["problems"]:
        print("VIOLATION property=C02 replay=(replayed)")
        return 1
    return 0

"""C10 - every value an algorithm selects lies in the variable's domain (Engine A)."""
import random as _r

from pv import common, gen, detsched

ALGOS = ["dpop", "syncbb", "mgm", "mgm2", "dsa", "adsa", "dsatuto", "dba", "gdba", "maxsum", "amaxsum", "mixeddsa", "ncbb"]

RULE = ("all thirteen shipped algorithm modules (dpop, syncbb, mgm, mgm2, dsa, adsa [periodic ticks driven by the pool], "
        "dsatuto, dba, gdba, maxsum, amaxsum with default noise/damping, mixeddsa with hard and soft constraints, ncbb "
        "[observed until its own on_new_cycle raises on this tree]; maxsum_dynamic is a class library without "
        "build_computation, not an algorithm module) on seeded small DCOPs with int, str and "
        "float domains, initial values set/unset, random parameters, random FIFO schedules with biases; monitor = "
        "class-level wrapper on VariableComputation.value_selection (the funnel) + current_value of every variable "
        "computation after every scheduler step; non-trivial = >= 2 variables and >= 3 monitored value_selection "
        "calls; distinct by hash(instance, algo, params, schedule)")


def in_domain(val, domain):
    if val is None:
        return True
    for d in domain:
        try:
            if bool(val == d):
                return True
        except Exception:
            continue
    return False


def make_case(rng, algo):
    binary = algo in ("syncbb", "ncbb")
    hard = algo in ("dba",)
    pal = ("ties", "distinct", "float") if not hard else ("hard",)
    if algo == "mixeddsa":
        pal = ("ties", "distinct", "hard")
    objective = "min" if algo in ("dba", "dsatuto", "gdba", "ncbb") and rng.random() < 2 else None
    if algo == "gdba":
        objective = rng.choice(["min", "max"])
    mixed = rng.random() < 0.3
    if mixed and not hard:
        pal = ("ties", "bin")  # many ties: tie-breaking between values of different types
    case = gen.gen_case(rng, min_vars=1, max_vars=5, max_dom=4, palettes=pal, objective=objective,
                        binary_only=binary, var_costs=algo not in ("syncbb", "dba", "gdba", "ncbb"), max_space=600, initial=True,
                        unary=algo not in ("syncbb", "ncbb"))
    # domains mixing value types (e.g. 'off', 1, 2) for some variables: ties between values of different types
    if mixed:
        for v in case["variables"]:
            if rng.random() < 0.8:
                pool_ = ["off", "on", "a", 1, 2, 3, 0, 2.5, True]
                k = len(v["domain"])
                dom = []
                for x in rng.sample(pool_, len(pool_)):
                    if not any(x == y for y in dom):  # 1 == True, keep domain values distinct by equality
                        dom.append(x)
                    if len(dom) == k:
                        break
                v["domain"] = dom
                if v["initial"] is not None:
                    v["initial"] = rng.choice(dom)
        case["mixed_type_domains"] = True
        return case
    # float domains for some variables
    if rng.random() < 0.3:
        for v in case["variables"]:
            if all(isinstance(x, int) for x in v["domain"]) and rng.random() < 0.5:
                v["domain"] = [x + 0.5 for x in v["domain"]]
                if v["initial"] is not None:
                    v["initial"] = v["initial"] + 0.5
    return case


def with_checked_initial_values(case, seed):
    """Some runs try to define a variable with an initial value outside its domain (incl. falsy ones: 0, '', False,
    0.0). The definition must be rejected (ValueError); if the library accepts it, the variable keeps that initial
    value and the run is monitored like any other: the selected value must still be unset or a domain member."""
    import copy
    from pydcop.dcop.objects import Domain, Variable

    rr = _r.Random(seed * 31 + 7)
    if rr.random() > 0.25:
        return case, 0
    case = copy.deepcopy(case)
    rejected = 0
    for v in case["variables"]:
        if rr.random() < 0.5:
            bad = [x for x in (0, "", False, 0.0, -1, "zz", 99, None) if x is not None and not any(x == y for y in v["domain"])]
            if not bad:
                continue
            b = rr.choice(bad)
            try:
                Variable(v["name"], Domain("d", "t", list(v["domain"])), b)
            except ValueError:
                rejected += 1
                continue
            v["initial"] = b  # accepted by the library
            case["invalid_initial_accepted"] = True
    return case, rejected


def make_params(rng, algo):
    if algo == "mgm":
        return {"stop_cycle": rng.choice([0, 5, 10]), "break_mode": rng.choice(["lexic", "random"])}
    if algo == "mgm2":
        return {"stop_cycle": rng.choice([0, 5, 10]), "threshold": rng.choice([0.2, 0.5, 0.9]),
                "favor": rng.choice(["unilateral", "no", "coordinated"])}
    if algo == "dsa":
        return {"stop_cycle": rng.choice([0, 8]), "variant": rng.choice(["A", "B", "C"]),
                "probability": rng.choice([0.3, 0.7, 1.0])}
    if algo == "adsa":
        return {"variant": rng.choice(["A", "B", "C"]), "probability": rng.choice([0.3, 0.7, 1.0]), "period": 0.1}
    if algo == "gdba":
        return {"modifier": rng.choice(["A", "M"]), "violation": rng.choice(["NZ", "NM", "MX"]),
                "increase_mode": rng.choice(["E", "R", "C", "T"])}
    if algo in ("maxsum", "amaxsum"):
        p = {"start_messages": rng.choice(["leafs", "leafs_vars", "all"])}
        if rng.random() < 0.5:
            p["damping"] = rng.choice([0.0, 0.5, 0.9])
            p["noise"] = rng.choice([0.0, 0.01, 0.2])
        return p
    if algo == "mixeddsa":
        return {"stop_cycle": rng.choice([0, 6]), "variant": rng.choice(["A", "B", "C"]),
                "proba_hard": rng.choice([0.3, 0.7, 1.0]), "proba_soft": rng.choice([0.3, 0.5, 1.0])}
    if algo == "dba":
        return {"max_distance": rng.choice([3, 10, 50])}
    return {}


def run_one(case, algo, params, sched_seed, bias=None, choices=None, budget=1500):
    from pydcop.infrastructure.computations import VariableComputation

    case, rejected = with_checked_initial_values(case, sched_seed)
    dcop = gen.build_dcop(case)
    detsched.seed_algo_rngs(sched_seed)
    pool = detsched.Pool(sched_seed, choices=choices)
    calls = []
    problems = []
    orig = VariableComputation.value_selection

    def hooked(self, val, cost=0):
        dom = list(self.variable.domain)
        calls.append(self.name)
        if not in_domain(val, dom):
            problems.append(("value-selection-outside-domain", "%s.value_selection(%r) but domain is %r" % (
                self.name, val, dom)))
        return orig(self, val, cost)

    VariableComputation.value_selection = hooked
    try:
        try:
            comps, _, _ = detsched.build_computations(algo, dcop, params=params)
        except Exception as e:
            return {"status": "build-error", "exception": "%s: %s" % (type(e).__name__, e), "problems": [], "calls": 0,
                    "trace": [], "delivered": 0, "bias": {"bias": "uniform"}, "nvars": 0, "steps_checked": 0}
        r2 = _r.Random(sched_seed * 7919 + 1)
        if bias is None:
            detsched.choose_bias(r2, pool, [c.name for c in comps])
        else:
            pool.bias, pool.bias_target, pool.late_until = bias["bias"], bias.get("target"), bias.get("late_until", 0)
        varcomps = [c for c in comps if isinstance(c, VariableComputation)]
        checked = [0]

        def ob(kind, data):
            if kind == "step":
                for c in varcomps:
                    checked[0] += 1
                    if not in_domain(c.current_value, list(c.variable.domain)):
                        problems.append(("current-value-outside-domain", "%s.current_value == %r, domain %r" % (
                            c.name, c.current_value, list(c.variable.domain))))

        pool.observers.append(ob)
        for c in comps:
            pool.add(c)
        status = pool.run(budget)
    finally:
        VariableComputation.value_selection = orig
    return {"status": status, "exception": pool.errors[0][1] if pool.errors else None, "problems": problems[:5],
            "calls": len(calls), "trace": list(pool.trace), "delivered": pool.delivered, "nvars": len(varcomps),
            "steps_checked": checked[0], "invalid_initial_rejected": rejected,
            "bias": {"bias": pool.bias, "target": pool.bias_target, "late_until": pool.late_until}}


def worker(job):
    R = common.WorkerResult()
    seed = job["seed"]
    for i in range(job["lo"], job["hi"]):
        rng = common.rng_for(seed, "C10", i)
        algo = ALGOS[i % len(ALGOS)]
        case = make_case(rng, algo)
        csig = gen.case_sig(case)
        for s in range(job["nsched"]):
            params = make_params(rng, algo)
            sseed = (seed * 1000003 + i * 101 + s) & 0x7FFFFFFF
            res = run_one(case, algo, params, sseed)
            nontrivial = res["nvars"] >= 2 and res["calls"] >= 3
            R.case(common.stable_hash([csig, algo, params, res["trace"]]), nontrivial,
                   sample={"case": case, "algo": algo, "params": params, "bias": res["bias"],
                           "value_selection_calls": res["calls"], "schedule_head": res["trace"][:30]} if nontrivial and s == 0 else None,
                   max_samples=3)
            R.count("value_selection_calls_checked", res["calls"])
            R.count("current_value_reads_checked", res["steps_checked"])
            R.count("messages_delivered", res["delivered"])
            R.count("invalid_initial_values_rejected_by_the_library", res.get("invalid_initial_rejected", 0))
            if case.get("mixed_type_domains"):
                R.count("runs_with_mixed_type_domains")
            R.bump("value_selection_calls_by_algo", algo, res["calls"])
            R.bump("runs_by_algo", algo)
            if res["exception"]:
                R.bump("observation_ended_by_exception", "%s: %s" % (algo, res["exception"][:60]))
            for p in res["problems"]:
                R.violation("%s:%s" % (algo, p[0]), p[1], {"case": case, "algo": algo, "params": params, "sched_seed": sseed,
                                                           "bias": res["bias"], "choices": res["trace"]})
    return R


def main(chk, tier, seed):
    chk.rule = RULE
    chk.assumptions = ["membership by equality with a domain value", "a raising handler only ends that run's observation window "
                       "(not part of this property); it is listed under observation_ended_by_exception"]
    n = 660 if tier == "quick" else 22000
    common.run_chunked(chk, "c10", n, nchunks=16 if tier == "quick" else 64,
                       job_extra={"nsched": 2 if tier == "quick" else 3}, timeout=3000)
    per = chk.extra.get("value_selection_calls_by_algo", {})
    for a in ALGOS:
        chk.inconclusive_if(per.get(a, 0) < 20, "algorithm %s: only %d monitored value_selection calls" % (a, per.get(a, 0)))


def replay(payload):
    w = payload["witness"]
    res = run_one(w["case"], w["algo"], w["params"], w["sched_seed"], bias=w["bias"], choices=list(w["choices"]))
    print("replay: status=%s problems=%s" % (res["status"], res["problems"][:3]))
    if res["problems"]:
        print("VIOLATION property=C10 replay=(replayed)")
        return 1
    return 0

"""C14 - DCOP YAML files round-trip and load faithfully (Engine C)."""
import os
import shutil
import tempfile

from pv import common, gen

RULE = ("generated DCOPs restricted to what the YAML format expresses: domains of ints or space-free strings (>= 2 "
        "values, and the 1-value case), variables with/without initial value (incl. 0), extensional constraints of "
        "arity 1-3 (int/float/negative values) and intentional constraints (arithmetic expressions), 0-4 agents with "
        "capacity, one global default route, symmetric route table, default and per-computation hosting costs; "
        "dcop_yaml -> load_dcop(string), load_dcop_from_file(str path), ([path]) and ([problem file, agents file]); "
        "oracle: same domains/variables/initial values, every constraint equal on every assignment (harness tables), "
        "every agent: capacity, route(a') for all pairs incl. self, hosting_cost(c) for all computations and an unknown "
        "one; non-trivial = >= 2 constraints and >= 2 agents with routes or hosting costs; distinct by hash(case)")


def make_case(rng):
    case = gen.gen_case(rng, min_vars=1, max_vars=5, max_dom=3, palettes=("ties", "distinct", "float", "neg"),
                        max_space=300, var_costs=False, initial=True)
    # some 0 / single-value situations
    for v in case["variables"]:
        if all(isinstance(x, int) for x in v["domain"]) and rng.random() < 0.3:
            v["domain"] = list(range(0, len(v["domain"])))
            if v["initial"] is not None:
                v["initial"] = 0
    # intentional constraints: replace some tables by an arithmetic expression over int variables
    vm = gen.var_map(case)
    for c in case["constraints"]:
        if all(all(isinstance(x, int) for x in vm[n]["domain"]) for n in c["scope"]) and rng.random() < 0.4:
            names = list(c["scope"])
            coefs = [rng.randint(1, 9) * (10 ** i) for i in range(len(names))]
            expr = " + ".join("%d * %s" % (k, n) for k, n in zip(coefs, names)) + " - %d" % rng.randint(0, 4)
            c["kind"] = "expr"
            c["expr"] = expr
            table = []
            import itertools

            for vals in itertools.product(*[vm[n]["domain"] for n in names]):
                table.append(eval(expr, {"__builtins__": {}}, dict(zip(names, vals))))
            c["table"] = table
    # agents
    na = rng.choice([0, 1, 2, 3, 4])
    anames = ["a%d" % i for i in range(na)]
    default_route = rng.choice([1, 1, 3, 0.5])
    routes = {}
    for i, a in enumerate(anames):
        for b in anames[i + 1:]:
            if rng.random() < 0.5:
                routes[(a, b)] = rng.choice([2, 5, 7.5, 0])
    comps = [v["name"] for v in case["variables"]] + [c["name"] for c in case["constraints"]]
    agents = []
    for a in anames:
        ag = {"name": a, "capacity": rng.choice([10, 100, 1000]), "default_hosting_cost": rng.choice([0, 0, 5, 10.5]),
              "hosting_costs": {c: rng.choice([0, 1, 20]) for c in comps if rng.random() < 0.3},
              "routes": {}}
        for (x, y), r in routes.items():
            if x == a:
                ag["routes"][y] = r
            elif y == a:
                ag["routes"][x] = r
        agents.append(ag)
    case["agents"] = agents
    case["default_route"] = default_route
    return case


def build(case):
    from pydcop.dcop.dcop import DCOP
    from pydcop.dcop.objects import AgentDef
    from pydcop.dcop.relations import constraint_from_str

    variables = gen.build_variables(case)
    dcop = DCOP("c14", case["objective"])
    for v in variables.values():
        dcop.add_variable(v)
        dcop.domains[v.domain.name] = v.domain
    for c in case["constraints"]:
        if c.get("kind") == "expr":
            dcop.add_constraint(constraint_from_str(c["name"], c["expr"], list(variables.values())))
        else:
            dcop.add_constraint(gen.build_constraint(case, c, variables))
    agents = []
    for a in case["agents"]:
        agents.append(AgentDef(a["name"], capacity=a["capacity"], default_hosting_cost=a["default_hosting_cost"],
                               hosting_costs=dict(a["hosting_costs"]), default_route=case["default_route"],
                               routes=dict(a["routes"])))
    if agents:
        dcop.add_agents(agents)
    return dcop


def compare(case, loaded, how):
    P = []
    vm = gen.var_map(case)
    # domains
    for v in case["variables"]:
        dn = "d_" + v["name"]
        if dn not in loaded.domains:
            P.append(("domain-missing", "%s: domain %s missing after loading" % (how, dn)))
            continue
        vals = list(loaded.domains[dn].values)
        if vals != v["domain"] or [type(x) for x in vals] != [type(x) for x in v["domain"]]:
            P.append(("domain-values", "%s: domain %s values %r (types %s), expected %r" % (
                how, dn, vals, [type(x).__name__ for x in vals], v["domain"])))
    # variables
    if sorted(loaded.variables) != sorted(vm):
        P.append(("variables", "%s: variables %r, expected %r" % (how, sorted(loaded.variables), sorted(vm))))
        return P
    for n, v in vm.items():
        lv = loaded.variables[n]
        if lv.initial_value != v["initial"] or (v["initial"] is not None and type(lv.initial_value) != type(v["initial"])):
            P.append(("initial-value", "%s: variable %s initial value %r, expected %r" % (how, n, lv.initial_value, v["initial"])))
        if lv.domain.name != "d_" + n or list(lv.domain.values) != v["domain"]:
            P.append(("variable-domain", "%s: variable %s domain %r" % (how, n, lv.domain)))
    # constraints
    if sorted(loaded.constraints) != sorted(c["name"] for c in case["constraints"]):
        P.append(("constraints", "%s: constraints %r, expected %r" % (how, sorted(loaded.constraints), sorted(c["name"] for c in case["constraints"]))))
        return P
    for c in case["constraints"]:
        lc = loaded.constraints[c["name"]]
        if sorted(d.name for d in lc.dimensions) != sorted(c["scope"]):
            P.append(("constraint-scope", "%s: constraint %s scope %r, expected %r" % (how, c["name"], [d.name for d in lc.dimensions], c["scope"])))
            continue
        for asg in gen.assignments(case, c["scope"]):
            want = gen.constraint_value(case, c, asg)
            try:
                got = lc(**asg)
            except Exception as e:
                P.append(("constraint-eval:%s" % type(e).__name__, "%s: constraint %s(%r) raised %s" % (how, c["name"], asg, e)))
                break
            if not gen.close(got, want):
                P.append(("constraint-value", "%s: constraint %s(%r) == %r, expected %r" % (how, c["name"], asg, got, want)))
                break
    # agents
    names = [a["name"] for a in case["agents"]]
    if sorted(loaded.agents) != sorted(names):
        P.append(("agents", "%s: agents %r, expected %r" % (how, sorted(loaded.agents), names)))
        return P
    comps = [v["name"] for v in case["variables"]] + [c["name"] for c in case["constraints"]] + ["unknown_computation"]
    for a in case["agents"]:
        la = loaded.agents[a["name"]]
        if getattr(la, "capacity", None) != a["capacity"]:
            P.append(("agent-capacity", "%s: agent %s capacity %r, expected %r" % (how, a["name"], getattr(la, "capacity", None), a["capacity"])))
        for b in names:
            want = 0 if b == a["name"] else a["routes"].get(b, case["default_route"])
            got = la.route(b)
            if got != want:
                P.append(("agent-route", "%s: %s.route(%s) == %r, expected %r" % (how, a["name"], b, got, want)))
        for c in comps:
            want = a["hosting_costs"].get(c, a["default_hosting_cost"])
            got = la.hosting_cost(c)
            if got != want:
                P.append(("agent-hosting-cost", "%s: %s.hosting_cost(%s) == %r, expected %r" % (how, a["name"], c, got, want)))
    return P


def check_case(case, R):
    from pydcop.dcop import yamldcop

    P = []
    dcop = build(case)
    try:
        text = yamldcop.dcop_yaml(dcop)
    except Exception as e:
        return [("dcop_yaml:exception:%s" % type(e).__name__, "dcop_yaml raised %s: %s" % (type(e).__name__, e))]
    d = tempfile.mkdtemp(prefix="pvc14_")
    try:
        one = os.path.join(d, "dcop.yaml")
        with open(one, "w") as f:
            f.write(text)
        # split: everything up to the agents section / the agents section
        idx = text.find("\nagents:")
        ways = [("load_dcop(str)", lambda: yamldcop.load_dcop(text)),
                ("load_dcop_from_file(str path)", lambda: yamldcop.load_dcop_from_file(one)),
                ("load_dcop_from_file([path])", lambda: yamldcop.load_dcop_from_file([one]))]
        if idx > 0:
            pa, pb = os.path.join(d, "problem.yaml"), os.path.join(d, "agents.yaml")
            with open(pa, "w") as f:
                f.write(text[:idx + 1])
            with open(pb, "w") as f:
                f.write(text[idx + 1:])
            ways.append(("load_dcop_from_file([problem, agents])", lambda: yamldcop.load_dcop_from_file([pa, pb])))
        for how, f in ways:
            try:
                loaded = f()
            except Exception as e:
                key = "%s:exception:%s" % (how, type(e).__name__)
                if any(len(v["domain"]) == 1 for v in case["variables"]):
                    key += ":single-value-domain"
                P.append((key, "%s raised %s: %s" % (how, type(e).__name__, str(e)[:200])))
                continue
            R.count("loads_compared")
            if loaded is None:
                P.append(("%s:returned-none" % how, "%s returned None" % how))
                continue
            for k, m in compare(case, loaded, how):
                if any(len(v["domain"]) == 1 for v in case["variables"]) and k.startswith("domain"):
                    k += ":single-value-domain"
                P.append((k, m))
    finally:
        shutil.rmtree(d, ignore_errors=True)
    return P


def worker(job):
    R = common.WorkerResult()
    seed = job["seed"]
    for i in range(job["lo"], job["hi"]):
        rng = common.rng_for(seed, "C14", i)
        case = make_case(rng)
        try:
            problems = check_case(case, R)
        except Exception as e:
            import traceback

            problems = [("harness:exception:%s" % type(e).__name__, traceback.format_exc()[-900:])]
        nontrivial = len(case["constraints"]) >= 2 and len(case["agents"]) >= 2 and any(a["routes"] or a["hosting_costs"] for a in case["agents"])
        R.case(gen.case_sig(case), nontrivial, sample={"case": case} if nontrivial and i % 6 == 0 else None)
        R.count("intentional_constraints", sum(1 for c in case["constraints"] if c.get("kind") == "expr"))
        R.count("extensional_constraints", sum(1 for c in case["constraints"] if c.get("kind") != "expr"))
        seen = set()
        for k, m in problems:
            if k in seen:
                continue
            seen.add(k)
            R.violation(k, m, {"case": case, "index": i})
    return R


def main(chk, tier, seed):
    chk.rule = RULE
    chk.assumptions = ["one global default route, symmetric routes (what the format can express)", "no variable cost functions (dcop_yaml does not write them; not in the statement)"]
    n = 2400 if tier == "quick" else 24000
    common.run_chunked(chk, "c14", n, nchunks=16 if tier == "quick" else 64, timeout=3000)
    chk.inconclusive_if(chk.counters.get("loads_compared", 0) < n and not chk.violations and not chk.known_seen, "too few loads compared")


def replay(payload):
    R = common.WorkerResult()
    problems = check_case(payload["witness"]["case"], R)
    print("replay:", problems[:3])
    if problems:
        print("VIOLATION property=C14 replay=(replayed)")
        return 1
    return 0

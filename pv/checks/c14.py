"""C14 - DCOP YAML files round-trip and load faithfully (Engine C)."""
import os
import shutil
import tempfile

from pv import common, gen

RULE = ("generated DCOPs restricted to what the YAML format expresses: domains of ints or space-free strings (>= 2 "
        "values, and the 1-value case), variables with/without initial value (incl. 0), extensional constraints of "
        "arity 1-3 (int/float/negative values) and intentional constraints (arithmetic expressions), 0-4 agents with "
        "capacity, one global default route, symmetric route table, default and per-computation hosting costs; "
        "dcop_yaml -> load_dcop(string), load_dcop_from_file(str path), ([path]), tuples, one-shot iterators / generators and ([problem file, agents file]) in both orders; "
        "oracle: same domains/variables/initial values, every constraint equal on every assignment (harness tables), "
        "every agent: capacity, route(a') for all pairs incl. self, hosting_cost(c) for all computations and an unknown "
        "one; a fifth of the cases are agents / routes / hosting_costs sections written by hand in the documented forms "
        "(global and agent-level defaults incl. 0, per-computation costs, routes given from one end, agents as map or "
        "list), loaded and compared with what the text says; non-trivial = >= 2 constraints and >= 2 agents with routes or hosting costs; distinct by hash(case)")


def make_case(rng):
    case = gen.gen_case(rng, min_vars=1, max_vars=5, max_dom=3, palettes=("ties", "distinct", "float", "neg"),
                        max_space=300, var_costs=False, initial=True)
    # some 0 / single-value situations
    for v in case["variables"]:
        if all(isinstance(x, int) for x in v["domain"]) and rng.random() < 0.3:
            v["domain"] = list(range(0, len(v["domain"])))
            if v["initial"] is not None:
                v["initial"] = 0
    # intentional constraints: replace some tables by an arithmetic expression over int variables
    vm = gen.var_map(case)
    for c in case["constraints"]:
        if all(all(isinstance(x, int) for x in vm[n]["domain"]) for n in c["scope"]) and rng.random() < 0.4:
            names = list(c["scope"])
            coefs = [rng.randint(1, 9) * (10 ** i) for i in range(len(names))]
            expr = " + ".join("%d * %s" % (k, n) for k, n in zip(coefs, names)) + " - %d" % rng.randint(0, 4)
            c["kind"] = "expr"
            c["expr"] = expr
            table = []
            import itertools

            for vals in itertools.product(*[vm[n]["domain"] for n in names]):
                table.append(eval(expr, {"__builtins__": {}}, dict(zip(names, vals))))
            c["table"] = table
    # cost functions of variables, in the YAML form (an expression of the variable)
    for v in case["variables"]:
        if all(isinstance(x, int) and not isinstance(x, bool) for x in v["domain"]) and rng.random() < 0.3:
            v["cost_expr"] = rng.choice(["%s * 0.5", "2 * %s + 1", "10 - %s", "0.1 * %s * %s"]).replace("%s", v["name"])
    # agents
    na = rng.choice([0, 1, 2, 3, 4])
    anames = ["a%d" % i for i in range(na)]
    default_route = rng.choice([1, 1, 3, 0.5])
    routes = {}
    for i, a in enumerate(anames):
        for b in anames[i + 1:]:
            if rng.random() < 0.5:
                routes[(a, b)] = rng.choice([2, 5, 7.5, 0])
    comps = [v["name"] for v in case["variables"]] + [c["name"] for c in case["constraints"]]
    agents = []
    for a in anames:
        ag = {"name": a, "capacity": rng.choice([10, 100, 1000]), "default_hosting_cost": rng.choice([0, 0, 5, 10.5]),
              "hosting_costs": {c: rng.choice([0, 1, 20]) for c in comps if rng.random() < 0.3},
              "routes": {}}
        for (x, y), r in routes.items():
            if x == a:
                ag["routes"][y] = r
            elif y == a:
                ag["routes"][x] = r
        agents.append(ag)
    case["agents"] = agents
    case["default_route"] = default_route
    return case


def build(case):
    from pydcop.dcop.dcop import DCOP
    from pydcop.dcop.objects import AgentDef
    from pydcop.dcop.relations import constraint_from_str

    variables = gen.build_variables(case)
    from pydcop.dcop.objects import VariableWithCostFunc
    from pydcop.utils.expressionfunction import ExpressionFunction

    for v in case["variables"]:
        if v.get("cost_expr"):
            old = variables[v["name"]]
            variables[v["name"]] = VariableWithCostFunc(v["name"], old.domain, ExpressionFunction(v["cost_expr"]), v.get("initial"))
    dcop = DCOP("c14", case["objective"])
    for v in variables.values():
        dcop.add_variable(v)
        dcop.domains[v.domain.name] = v.domain
    for c in case["constraints"]:
        if c.get("kind") == "expr":
            dcop.add_constraint(constraint_from_str(c["name"], c["expr"], list(variables.values())))
        else:
            dcop.add_constraint(gen.build_constraint(case, c, variables))
    agents = []
    for a in case["agents"]:
        agents.append(AgentDef(a["name"], capacity=a["capacity"], default_hosting_cost=a["default_hosting_cost"],
                               hosting_costs=dict(a["hosting_costs"]), default_route=case["default_route"],
                               routes=dict(a["routes"])))
    if agents:
        dcop.add_agents(agents)
    return dcop


def compare(case, loaded, how):
    P = []
    vm = gen.var_map(case)
    # domains
    for v in case["variables"]:
        dn = "d_" + v["name"]
        if dn not in loaded.domains:
            P.append(("domain-missing", "%s: domain %s missing after loading" % (how, dn)))
            continue
        vals = list(loaded.domains[dn].values)
        if vals != v["domain"] or [type(x) for x in vals] != [type(x) for x in v["domain"]]:
            P.append(("domain-values", "%s: domain %s values %r (types %s), expected %r" % (
                how, dn, vals, [type(x).__name__ for x in vals], v["domain"])))
    # variables
    if sorted(loaded.variables) != sorted(vm):
        P.append(("variables", "%s: variables %r, expected %r" % (how, sorted(loaded.variables), sorted(vm))))
        return P
    for n, v in vm.items():
        lv = loaded.variables[n]
        if lv.initial_value != v["initial"] or (v["initial"] is not None and type(lv.initial_value) != type(v["initial"])):
            P.append(("initial-value", "%s: variable %s initial value %r, expected %r" % (how, n, lv.initial_value, v["initial"])))
        if lv.domain.name != "d_" + n or list(lv.domain.values) != v["domain"]:
            P.append(("variable-domain", "%s: variable %s domain %r" % (how, n, lv.domain)))
        for val in v["domain"]:
            want = eval(v["cost_expr"], {"__builtins__": {}}, {n: val}) if v.get("cost_expr") else 0
            try:
                got = lv.cost_for_val(val)
            except Exception as e:
                got = "raised %s" % type(e).__name__
            if got != want and not (isinstance(got, (int, float)) and gen.close(got, want)):
                P.append(("variable-cost", "%s: variable %s costs %r for value %r, expected %r (cost function %r)" % (how, n, got, val, want, v.get("cost_expr"))))
                break
    # constraints
    if sorted(loaded.constraints) != sorted(c["name"] for c in case["constraints"]):
        P.append(("constraints", "%s: constraints %r, expected %r" % (how, sorted(loaded.constraints), sorted(c["name"] for c in case["constraints"]))))
        return P
    for c in case["constraints"]:
        lc = loaded.constraints[c["name"]]
        if sorted(d.name for d in lc.dimensions) != sorted(c["scope"]):
            P.append(("constraint-scope", "%s: constraint %s scope %r, expected %r" % (how, c["name"], [d.name for d in lc.dimensions], c["scope"])))
            continue
        for asg in gen.assignments(case, c["scope"]):
            want = gen.constraint_value(case, c, asg)
            try:
                got = lc(**asg)
            except Exception as e:
                P.append(("constraint-eval:%s" % type(e).__name__, "%s: constraint %s(%r) raised %s" % (how, c["name"], asg, e)))
                break
            if not gen.close(got, want):
                P.append(("constraint-value", "%s: constraint %s(%r) == %r, expected %r" % (how, c["name"], asg, got, want)))
                break
    # agents
    names = [a["name"] for a in case["agents"]]
    if sorted(loaded.agents) != sorted(names):
        P.append(("agents", "%s: agents %r, expected %r" % (how, sorted(loaded.agents), names)))
        return P
    comps = [v["name"] for v in case["variables"]] + [c["name"] for c in case["constraints"]] + ["unknown_computation"]
    for a in case["agents"]:
        la = loaded.agents[a["name"]]
        if getattr(la, "capacity", None) != a["capacity"]:
            P.append(("agent-capacity", "%s: agent %s capacity %r, expected %r" % (how, a["name"], getattr(la, "capacity", None), a["capacity"])))
        for b in names:
            want = 0 if b == a["name"] else a["routes"].get(b, case["default_route"])
            got = la.route(b)
            if got != want:
                P.append(("agent-route", "%s: %s.route(%s) == %r, expected %r" % (how, a["name"], b, got, want)))
        for c in comps:
            want = a["hosting_costs"].get(c, a["default_hosting_cost"])
            got = la.hosting_cost(c)
            if got != want:
                P.append(("agent-hosting-cost", "%s: %s.hosting_cost(%s) == %r, expected %r" % (how, a["name"], c, got, want)))
    return P


def check_case(case, R):
    from pydcop.dcop import yamldcop

    P = []
    dcop = build(case)
    try:
        text = yamldcop.dcop_yaml(dcop)
    except Exception as e:
        return [("dcop_yaml:exception:%s" % type(e).__name__, "dcop_yaml raised %s: %s" % (type(e).__name__, e))]
    d = tempfile.mkdtemp(prefix="pvc14_")
    try:
        one = os.path.join(d, "dcop.yaml")
        with open(one, "w") as f:
            f.write(text)
        # split: everything up to the agents section / the agents section
        idx = text.find("\nagents:")
        ways = [("load_dcop(str)", lambda: yamldcop.load_dcop(text)),
                ("load_dcop_from_file(str path)", lambda: yamldcop.load_dcop_from_file(one)),
                ("load_dcop_from_file([path])", lambda: yamldcop.load_dcop_from_file([one])),
                ("load_dcop_from_file((path,))", lambda: yamldcop.load_dcop_from_file((one,))),
                ("load_dcop_from_file(iter([path]))", lambda: yamldcop.load_dcop_from_file(iter([one])))]
        if idx > 0:
            pa, pb = os.path.join(d, "problem.yaml"), os.path.join(d, "agents.yaml")
            with open(pa, "w") as f:
                f.write(text[:idx + 1])
            with open(pb, "w") as f:
                f.write(text[idx + 1:])
            ways.append(("load_dcop_from_file([problem, agents])", lambda: yamldcop.load_dcop_from_file([pa, pb])))
            # file names given by a one-shot iterable (generator, map, Path.glob ...)
            ways.append(("load_dcop_from_file(generator of [problem, agents])", lambda: yamldcop.load_dcop_from_file(p for p in [pa, pb])))
            ways.append(("load_dcop_from_file(generator of [agents, problem])", lambda: yamldcop.load_dcop_from_file(p for p in [pb, pa])))
        for how, f in ways:
            try:
                loaded = f()
            except Exception as e:
                key = "%s:exception:%s" % (how, type(e).__name__)
                if any(len(v["domain"]) == 1 for v in case["variables"]):
                    key += ":single-value-domain"
                P.append((key, "%s raised %s: %s" % (how, type(e).__name__, str(e)[:200])))
                continue
            R.count("loads_compared")
            if loaded is None:
                P.append(("%s:returned-none" % how, "%s returned None" % how))
                continue
            for k, m in compare(case, loaded, how):
                if any(len(v["domain"]) == 1 for v in case["variables"]) and k.startswith("domain"):
                    k += ":single-value-domain"
                P.append((k, m))
    finally:
        shutil.rmtree(d, ignore_errors=True)
    return P


def handwritten_agents_problems(rng, R):
    """agents / routes / hosting_costs sections written by hand in the documented YAML forms (global default, agent
    default incl. 0, per-computation costs, routes given from one end only, agents as a map with attributes or as a
    list): the loaded AgentDefs must answer as the text says"""
    import yaml
    from pydcop.dcop.yamldcop import load_dcop

    P = []
    agents = ["a%d" % i for i in range(1, rng.randint(2, 4) + 1)]
    comps = ["v1", "v2", "c1"]
    as_list = rng.random() < 0.3
    caps = {a: rng.choice([10, 100]) for a in agents}
    doc = {"name": "t", "objective": "min", "domains": {"d": {"values": [0, 1]}},
           "variables": {"v1": {"domain": "d"}, "v2": {"domain": "d"}},
           "constraints": {"c1": {"type": "intention", "function": "v1 + v2"}},
           "agents": list(agents) if as_list else {a: {"capacity": caps[a]} for a in agents}}
    spec = {"default_route": 1, "routes": {}, "global_default": None, "agent_default": {}, "specific": {}}
    if rng.random() < 0.8:
        r = {}
        if rng.random() < 0.7:
            spec["default_route"] = rng.choice([0, 2, 3.5])
            r["default"] = spec["default_route"]
        for i, a in enumerate(agents):
            for b in agents[i + 1:]:
                if rng.random() < 0.5:
                    v = rng.choice([0, 4, 7.5, 300])
                    spec["routes"][(a, b)] = v
                    x, y = (a, b) if rng.random() < 0.5 else (b, a)  # written from one end only
                    r.setdefault(x, {})[y] = v
        doc["routes"] = r
    if rng.random() < 0.85:
        h = {}
        if rng.random() < 0.7:
            spec["global_default"] = rng.choice([0, 5, 7, 2.5])
            h["default"] = spec["global_default"]
        for a in agents:
            e = {}
            if rng.random() < 0.6:
                spec["agent_default"][a] = rng.choice([0, 0, 3, 9.5])
                e["default"] = spec["agent_default"][a]
            if rng.random() < 0.6:
                cs = {c: rng.choice([0, 1, 20]) for c in comps if rng.random() < 0.5}
                if cs:
                    e["computations"] = cs
                    for c, v in cs.items():
                        spec["specific"][(a, c)] = v
            if e:
                h[a] = e
        doc["hosting_costs"] = h
    text = yaml.safe_dump(doc, default_flow_style=False)
    W = {"yaml": text}
    try:
        dcop = load_dcop(text)
    except Exception as e:
        return [("handwritten-agents:exception:%s" % type(e).__name__, "load_dcop raised %s: %s on\n%s" % (type(e).__name__, str(e)[:200], text))], W
    R.count("handwritten_agent_sections_loaded")
    if sorted(dcop.agents) != sorted(agents):
        return [("handwritten-agents:names", "agents %r, expected %r" % (sorted(dcop.agents), agents))], W
    for a in agents:
        la = dcop.agents[a]
        if not as_list and getattr(la, "capacity", None) != caps[a]:
            P.append(("handwritten-agents:capacity", "%s capacity %r, expected %r" % (a, getattr(la, "capacity", None), caps[a])))
        for b in agents:
            want = 0 if a == b else spec["routes"].get((a, b), spec["routes"].get((b, a), spec["default_route"]))
            if la.route(b) != want:
                P.append(("handwritten-agents:route", "%s.route(%s) == %r, the text says %r\n%s" % (a, b, la.route(b), want, text)))
        for c in comps + ["unknown_comp"]:
            if (a, c) in spec["specific"]:
                want = spec["specific"][(a, c)]
            elif a in spec["agent_default"]:
                want = spec["agent_default"][a]
            elif spec["global_default"] is not None:
                want = spec["global_default"]
            else:
                want = 0
            if la.hosting_cost(c) != want:
                P.append(("handwritten-agents:hosting-cost", "%s.hosting_cost(%s) == %r, the text says %r (agent default %r, global default %r)\n%s" % (
                    a, c, la.hosting_cost(c), want, spec["agent_default"].get(a, "none"), spec["global_default"], text)))
    return P[:3], W


def worker(job):
    R = common.WorkerResult()
    seed = job["seed"]
    for i in range(job["lo"], job["hi"]):
        rng = common.rng_for(seed, "C14", i)
        if i % 5 == 4:
            try:
                problems, W = handwritten_agents_problems(rng, R)
            except Exception as e:
                import traceback

                problems, W = [("harness:exception:%s" % type(e).__name__, traceback.format_exc()[-900:])], {}
            R.case(common.stable_hash(W), True, sample=W if i % 50 == 4 else None)
            for k, m in problems:
                R.violation(k, m, {"handwritten": W, "index": i})
            continue
        case = make_case(rng)
        try:
            problems = check_case(case, R)
        except Exception as e:
            import traceback

            problems = [("harness:exception:%s" % type(e).__name__, traceback.format_exc()[-900:])]
        nontrivial = len(case["constraints"]) >= 2 and len(case["agents"]) >= 2 and any(a["routes"] or a["hosting_costs"] for a in case["agents"])
        R.case(gen.case_sig(case), nontrivial, sample={"case": case} if nontrivial and i % 6 == 0 else None)
        R.count("intentional_constraints", sum(1 for c in case["constraints"] if c.get("kind") == "expr"))
        R.count("extensional_constraints", sum(1 for c in case["constraints"] if c.get("kind") != "expr"))
        seen = set()
        for k, m in problems:
            if k in seen:
                continue
            seen.add(k)
            R.violation(k, m, {"case": case, "index": i})
    return R


def main(chk, tier, seed):
    chk.rule = RULE
    chk.assumptions = ["one global default route, symmetric routes (what the format can express)", "no variable cost functions (dcop_yaml does not write them; not in the statement)"]
    n = 2400 if tier == "quick" else 72000
    common.run_chunked(chk, "c14", n, nchunks=16 if tier == "quick" else 64, timeout=3000)
    chk.inconclusive_if(chk.counters.get("loads_compared", 0) < n and not chk.violations and not chk.known_seen, "too few loads compared")


def replay(payload):
    R = common.WorkerResult()
    if "case" not in payload["witness"]:
        print("hand-written agents sections are replayed through the tier: VERIF_SEED=%s ./check C14 %s" % (payload["seed"], payload["tier"]))
        print(payload["what"])
        print("VIOLATION property=C14 replay=(recorded witness)")
        return 1
    problems = check_case(payload["witness"]["case"], R)
    print("replay:", problems[:3])
    if problems:
        print("VIOLATION property=C14 replay=(replayed)")
        return 1
    return 0

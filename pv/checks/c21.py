"""C21 - an agent runs its computations on its own thread, one callback at a time (Engine B, real threads)."""
from pv import common, gen, orch

RULE = ("orchestrated thread-mode runs (run_local_thread_dcop + deploy_computations + run) of dpop, dsa, mgm, maxsum and "
        "adsa (periodic actions) on generated DCOPs of 3-6 variables with 2-5 agents and random mappings; half of the non-DPOP runs "
        "with replication (dist_ucs_hostingcosts, k=1..2) before run(), half of the non-terminating ones with a pause / "
        "resume request while running, a third with periodic metrics collection, half of the replicated dsa / mgm runs lose 1-2 agents while running (repair), a tenth with one agent stuck in a callback for 6 s when the run timeout fires (longer than the orchestrator's 5 s stop timeout); perturbation: switch interval 1e-5, "
        "random sleeps around Messaging.post_msg / next_msg and inside every monitored callback (thorough: sys.monitoring "
        "LINE yield injection on half of the runs); monitor: wrappers installed from the harness on start / on_message / "
        "pause of every computation given to Agent.add_computation (and each agent's discovery computation), on callables "
        "given to Agent.set_periodic_action and on callbacks given to Discovery.subscribe_* by a computation, recording "
        "(hosting agent, computation, kind, thread, enter / exit logical time); oracle: every record ran on the hosting "
        "agent's Thread object and no two records of one agent on different threads overlap; non-trivial = >= 3 agents "
        "with >= 5 records of >= 2 kinds each; distinct by hash(instance, mapping, algorithm, options)")

ALGOS = ["dpop", "dsa", "mgm", "maxsum", "adsa"]


def gen_run(rng, i):
    algo = ALGOS[i % len(ALGOS)]
    if rng.random() < 0.5:
        case = gen.gen_case(rng, min_vars=3, max_vars=6, max_dom=3, palettes=("ties", "distinct"), max_space=600,
                            nary=False, unary=False, var_costs=False, binary_only=True, shapes=("chain", "star", "tree", "cycle", "random"))
    else:
        # the general case: n-ary / unary / duplicate-scope constraints, variable costs, string domains
        case = gen.gen_case(rng, min_vars=3, max_vars=6, max_dom=3, palettes=("ties", "distinct", "float"), max_space=600,
                            shapes=("chain", "star", "tree", "cycle", "random"))
    na = rng.randint(2, 5)
    # DPOP computations have no footprint() (NotImplementedError): replication is documented for the local-search / maxsum family
    opts = {"replication": algo != "dpop" and rng.random() < 0.5, "k": rng.randint(1, 2), "pause_resume": algo != "dpop" and rng.random() < 0.5,
            "period": rng.random() < 0.33,
            # fault: one agent is stuck in a callback for longer than the orchestrator's 5 s stop timeout when the run timeout fires
            "slow_stop": algo in ("dsa", "mgm", "maxsum") and i % 10 in (1, 7)}
    # resilient runs: half of the replicated dsa / mgm runs lose one or two agents while running (repair pipeline:
    # repair computations, migrated computations started and paused, replication callbacks on agent removal)
    opts["removal"] = []
    if algo in ("dsa", "mgm") and not opts["slow_stop"] and rng.random() < 0.9:
        opts["replication"] = True
        if rng.random() < 0.5:
            opts["k"] = 1  # one replica: an orphan then has a single candidate (repair computations without neighbours)
        opts["removal"] = rng.sample(["a%d" % j for j in range(na)], 1 if na <= 2 else rng.randint(1, min(2, opts["k"])))
        opts["pause_resume"] = False
    params = {}
    if algo == "adsa":
        params = {"period": 0.05}
    return algo, case, na, opts, params


def analyse(mon):
    P = []
    by_agent = {}
    for r in mon.records:
        by_agent.setdefault(r["agent"], []).append(r)
        if not r["on_agent_thread"]:
            P.append(("callback-on-foreign-thread:%s:%s" % (r["kind"], "orchestrator" if r["agent"] == "orchestrator" else "agent"),
                      "%s of computation %s hosted on agent %s ran on thread %s" % (r["kind"], r["comp"], r["agent"], r["thread"])))
    for agent, recs in by_agent.items():
        # overlap between records on different threads (nesting on one thread is a plain call chain)
        recs = sorted(recs, key=lambda r: r["enter"])
        open_recs = []
        for r in recs:
            open_recs = [o for o in open_recs if o["exit"] is None or o["exit"] > r["enter"]]
            for o in open_recs:
                if o["thread"] != r["thread"]:
                    P.append(("concurrent-callbacks", "agent %s: %s of %s on %s overlaps %s of %s on %s" % (
                        agent, o["kind"], o["comp"], o["thread"], r["kind"], r["comp"], r["thread"])))
                    break
            open_recs.append(r)
    rich = 0
    for agent, recs in by_agent.items():
        if len(recs) >= 5 and len({r["kind"] for r in recs}) >= 2:
            rich += 1
    kinds = {}
    for r in mon.records:
        kinds[r["kind"]] = kinds.get(r["kind"], 0) + 1
    return P, rich, kinds


def check_run(algo, case, na, opts, params, seed, lines):
    mon = orch.CallbackMonitor()
    r = orch.run_orchestrated(case, algo, params, na, "random", seed, timeout=20.0 if algo == "dpop" else (2.5 if opts.get("removal") else 0.8), lines=lines,
                              monitor=mon, replication="dist_ucs_hostingcosts" if opts["replication"] else None,
                              k_target=opts["k"] if opts["replication"] else None, pause_resume=opts["pause_resume"],
                              collect_moment="period" if opts["period"] else "value_change", period=0.05 if opts["period"] else None,
                              stall=(0.7, 6.0) if opts.get("slow_stop") else None, removal=opts.get("removal") or None)
    P, rich, kinds = analyse(mon)
    if r["errors"]:
        P.append(("harness:exception", r["errors"][0]))
    W = {"algo": algo, "case": case, "nagents": na, "opts": opts, "params": params, "seed": seed, "lines": lines}
    return P, W, r, rich, kinds, len(mon.records), mon.ignored_subscriptions


def worker(job):
    R = common.WorkerResult()
    seed = job["seed"]
    for i in range(job["lo"], job["hi"]):
        rng = common.rng_for(seed, "C21", i)
        algo, case, na, opts, params = gen_run(rng, i)
        rseed = (seed * 1000003 + i * 19) & 0x7FFFFFFF
        lines = bool(job.get("lines")) and i % 2 == 0
        try:
            P, W, r, rich, kinds, nrec, ignored = check_run(algo, case, na, opts, params, rseed, lines)
        except Exception:
            import traceback

            R.violation("harness:exception", traceback.format_exc()[-700:], {"index": i})
            continue
        nontrivial = rich >= 3
        R.case(common.stable_hash([gen.case_sig(case), r.get("mapping"), algo, opts]), nontrivial,
               sample={"algo": algo, "agents": na, "options": opts, "status": r.get("status"), "records": nrec, "kinds": kinds,
                       "agents_with_rich_records": rich, "mapping": r.get("mapping")} if nontrivial and i % 5 == 0 else None)
        R.count("callback_records", nrec)
        R.count("subscriptions_not_by_a_computation", ignored)
        R.count("sleeps_injected", r.get("injected", 0))
        R.count("line_events", r.get("line_events", 0))
        for k, v in kinds.items():
            R.bump("records_by_kind", k, v)
        R.bump("algorithms", algo)
        if r.get("stalled_thread"):
            R.count("runs_with_agent_stuck_at_stop")
        if r.get("removal_injected_at") is not None:
            R.count("runs_with_agent_removal_and_repair")
        R.bump("statuses", "%s:%s" % (algo, r.get("status")))
        seen = set()
        for k, m in P:
            if k in seen:
                continue
            seen.add(k)
            R.violation(k, m, W)
    return R


def main(chk, tier, seed):
    chk.rule = RULE
    chk.assumptions = ["discovery callbacks are attributed to a computation when they are bound methods of a hosted computation or "
                       "are subscribed from inside a monitored callback; other subscriptions (e.g. Messaging's retry callback) are counted, not judged",
                       "thread schedules are sampled, not enumerated"]
    n = 60 if tier == "quick" else 800
    common.run_chunked(chk, "c21", n, nchunks=30 if tier == "quick" else 80, job_extra={"lines": tier == "thorough"}, timeout=600 if tier == "quick" else 3000)
    kinds = chk.extra.get("records_by_kind", {})
    for k in ("start", "message", "pause", "periodic", "discovery_cb"):
        chk.inconclusive_if(kinds.get(k, 0) < 5 and not chk.violations, "callback kind %r observed only %d times" % (k, kinds.get(k, 0)))


def replay(payload):
    w = payload["witness"]
    for attempt in range(5):
        P, W, r, rich, kinds, nrec, ignored = check_run(w["algo"], w["case"], w["nagents"], w["opts"], w["params"], w["seed"], w.get("lines", False))
        print("replay attempt %d: %d records, %s" % (attempt, nrec, P[:2]))
        if P:
            print("VIOLATION property=C21 replay=(replayed)")
            return 1
    print("not reproduced in 5 attempts (thread schedules are not replayable exactly)")
    return 0

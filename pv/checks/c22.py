"""C22 - orchestrated DPOP solve terminates by itself and reports a true optimum (Engine B, real threads)."""
import time

from pv import common, gen, orch

RULE = ("generated DCOPs (1-6 variables, domains 1-3, all shapes incl. several components and isolated variables, unary / "
        "binary / ternary tables, variable costs, palettes ties/distinct/float/neg, hard and over-constrained (10000 = infinity, min only; over-constrained = 75% of the entries are 10000), "
        "min and max) solved with DPOP through run_local_thread_dcop + deploy_computations + run(timeout=20) with 1-7 "
        "thread-mode agents and distributions oneagent / adhoc / gh_cgdp (harness footprint functions) / random mappings "
        "incl. idle agents; perturbation: switch interval 1e-5, random sleeps around every Messaging.post_msg / next_msg incl. rare 20 ms stalls of one thread, and agents starting up to 150 ms late "
        "(thorough: sys.monitoring LINE yield injection in the infrastructure modules on half of the runs); observed where "
        "the solve command looks: orchestrator.status right after run() and end_metrics(); oracle: status OK before the "
        "orchestrator's own 20 s timer, assignment covers every variable with domain values and its cost (harness tables) "
        "equals the brute-force optimum, reported cost / violation == harness accounting (entries equal to 10000 counted as "
        "violations, others summed) == dcop.solution_cost; of every eight runs two go through pydcop.infrastructure.run.solve() "
        "(assignment returned optimal, status of the orchestrator it built not TIMEOUT) and one through the real command line "
        "`pydcop -t 20 --output f solve --algo dpop -d <oneagent | distribution file> --infinity 10000 dcop.yaml` in a child process "
        "(status FINISHED, assignment / cost / violation of the JSON result judged the same way); non-trivial = >= 2 variables sharing a constraint on >= 2 "
        "agents; distinct by hash(instance, mapping)")

T = 20.0
DISTS = ["oneagent", "adhoc", "gh_cgdp", "random", "random"]


def accounting(case, asg, infinity=10000):
    viol, cost = 0, 0
    for c in case["constraints"]:
        v = gen.constraint_value(case, c, asg)
        if v == infinity:
            viol += 1
        else:
            cost += v
    vm = gen.var_map(case)
    for n, val in asg.items():
        vc = gen.var_cost(vm[n], val)
        if vc == infinity:
            viol += 1
        else:
            cost += vc
    return viol, cost


def gen_run(rng):
    palettes = ("ties", "distinct", "float", "neg", "hard")
    # half of the instances have 5-7 variables: pseudo-trees with inner nodes having several children and pseudo-parents
    nvars = None if rng.random() < 0.5 else rng.randint(5, 7)
    case = gen.gen_case(rng, nvars=nvars, min_vars=1, max_vars=6, max_dom=3, palettes=palettes, max_space=2500, initial=rng.random() < 0.5)
    if case["palette"] == "hard":
        case["objective"] = "min"
        if rng.random() < 0.5:
            # over-constrained: most entries are the infinity, so that the optimum itself contains violated hard constraints
            case["palette"] = "overconstrained"
            for c in case["constraints"]:
                c["table"] = [10000 if rng.random() < 0.75 else rng.randint(0, 5) for _ in c["table"]]
    nv = len(case["variables"])
    dist = rng.choice(DISTS)
    if dist == "oneagent":
        na = nv + rng.randint(0, 1)
    else:
        na = rng.randint(1, nv + 1)
    return case, dist, na


def check_run(case, dist, na, seed, lines):
    P = []
    # the three ways the orchestrator collects values and metrics (solve -c value_change | cycle_change | period)
    import random as _r
    cm = _r.Random(seed + 3).choice(["value_change", "value_change", "cycle_change", "period"])
    r = orch.run_orchestrated(case, "dpop", {}, na, dist, seed, timeout=T, lines=lines, p_long=0.02, start_delays=True, watchdog=45.0,
                              collect_moment=cm, period=0.05 if cm == "period" else None)
    r["collect_moment"] = cm
    W = {"case": case, "dist": dist, "nagents": na, "seed": seed, "lines": lines, "mapping": r.get("mapping"),
         "status": r.get("status"), "run_wall": r.get("run_wall")}
    if "dist_error" in r:
        return [], W, r, "distribution-failed"
    if r.get("watchdog") and r.get("blocked_while_quiescent"):
        # not a wall-clock verdict: every agent thread is idle with an empty queue, nothing can make run() return
        P.append(("run-blocked-while-every-agent-is-idle", "run() had not returned after %s s and the system is quiescent: (agent, thread alive, queued, "
                  "messages ever queued) = %r; mapping %r, late agents %r" % (45, r.get("blocked_state"), r.get("mapping"), r.get("start_delays"))))
        return P, W, r, "blocked"
    if r["errors"]:
        P.append(("harness:exception", r["errors"][0]))
        return P, W, r, "error"
    if r["fatal"]:
        P.append(("agent-thread-died", "orchestrator agent reported a fatal error: %s" % r["fatal"][0]))
    st = r.get("status")
    if st == "TIMEOUT" or r.get("run_wall", 0) >= T:
        P.append(("ended-by-timeout", "run() ended with status %r after %.1f s (the orchestrator's %s s timer), mapping %r, errors logged by the runtime: %r" % (
            st, r.get("run_wall", -1), T, r.get("mapping"), r.get("log_errors"))))
        return P, W, r, "timeout"
    if st != "OK":
        P.append(("status-not-ok", "orchestrator.status == %r after run()" % (st,)))
    met = r.get("metrics") or {}
    asg = met.get("assignment") or {}
    vm = gen.var_map(case)
    missing = sorted(set(vm) - set(asg))
    extra = sorted(set(asg) - set(vm))
    if missing:
        P.append(("assignment-incomplete", "no value reported for %r (assignment %r, mapping %r)" % (missing, asg, r.get("mapping"))))
        return P, W, r, "incomplete"
    if extra:
        P.append(("assignment-unknown-variable", "values reported for %r" % extra))
    for n, val in asg.items():
        if n in vm and val not in vm[n]["domain"]:
            P.append(("value-outside-domain", "%s = %r not in %r" % (n, val, vm[n]["domain"])))
            return P, W, r, "bad-value"
    asg = {n: asg[n] for n in vm}
    got = gen.total_cost(case, asg)
    best, _ = gen.brute_force(case)
    if not gen.close(got, best, 1e-9):
        P.append(("not-optimal", "%s problem: reported assignment %r costs %r, optimum %r (mapping %r)" % (
            case["objective"], asg, got, best, r.get("mapping"))))
    viol, cost = accounting(case, asg)
    if met.get("violation") != viol or not gen.close(met.get("cost"), cost, 1e-9):
        P.append(("reported-cost-mismatch", "reported cost %r / violation %r, accounting of the reported assignment gives %r / %r" % (
            met.get("cost"), met.get("violation"), cost, viol)))
    sc = r.get("dcop_solution_cost")
    if not (isinstance(sc, list) and sc[0] == met.get("violation") and gen.close(sc[1], met.get("cost"), 1e-9)):
        P.append(("reported-cost-vs-dcop", "reported cost %r / violation %r, dcop.solution_cost gives %r" % (met.get("cost"), met.get("violation"), sc)))
    if r.get("threads_left"):
        W["threads_left"] = r["threads_left"]
    return P, W, r, "solved"


def api_solve_run(case, dist, na, seed):
    """the same kind of instance through pydcop.infrastructure.run.solve(), the API convenience that hides orchestrator and
    agents: observed when it returns (assignment returned, status of the orchestrator it built)"""
    import contextlib
    import io
    import logging
    import os
    import random as _r
    import shutil
    import sys
    import tempfile
    import threading
    import time
    from pydcop.infrastructure import run as runmod

    logging.disable(logging.CRITICAL)
    rng = _r.Random(seed)
    dcop, agents, algo_def, cg = orch.build_problem(case, "dpop", {}, na)
    W = {"case": case, "dist": dist, "nagents": na, "seed": seed, "api": "infrastructure.run.solve"}
    try:
        distribution = orch.make_distribution(dist, cg, agents, rng, seed)
    except Exception:
        return [], W, {}, "distribution-failed"
    r = {"mapping": {a: list(cs) for a, cs in distribution.mapping().items()}, "errors": []}
    W["mapping"] = r["mapping"]
    holder = {}
    orig = runmod.run_local_thread_dcop

    def build(*a, **k):
        holder["o"] = orig(*a, **k)
        return holder["o"]

    out = {}
    d = tempfile.mkdtemp(prefix="pvc22_")
    cwd = os.getcwd()
    old_si = sys.getswitchinterval()

    def body():
        try:
            with contextlib.redirect_stdout(io.StringIO()):
                out["assignment"] = runmod.solve(dcop, algo_def, distribution, graph=cg, timeout=T)
        except BaseException as e:
            out["exception"] = "%s: %s" % (type(e).__name__, e)

    runmod.run_local_thread_dcop = build
    try:
        os.chdir(d)
        sys.setswitchinterval(1e-5)
        t0 = time.time()
        th = threading.Thread(target=body, name="pv_driver", daemon=True)
        th.start()
        th.join(T + 25)
        r["run_wall"] = time.time() - t0
        blocked = th.is_alive()
    finally:
        sys.setswitchinterval(old_si)
        runmod.run_local_thread_dcop = orig
        os.chdir(cwd)
        shutil.rmtree(d, ignore_errors=True)
    o = holder.get("o")
    r["status"] = getattr(o, "status", None)
    W["status"] = r["status"]
    P = []
    if blocked:
        if o is not None:
            try:
                o.stop_agents(2)
                o.stop()
            except Exception:
                pass
        return [("harness:api-solve-watchdog", "solve() had not returned after %d s" % (T + 25))], W, r, "blocked"
    if "exception" in out:
        P.append(("api-solve:exception", "infrastructure.run.solve raised %s" % out["exception"]))
        return P, W, r, "error"
    if r["status"] == "TIMEOUT":
        P.append(("api-solve:ended-by-timeout", "infrastructure.run.solve(dpop, timeout=%s) returned after %.1f s with orchestrator.status == 'TIMEOUT' although every computation had finished; assignment %r, mapping %r" % (
            T, r["run_wall"], out.get("assignment"), r["mapping"])))
        return P, W, r, "timeout"
    asg = out.get("assignment")
    vm = gen.var_map(case)
    if not isinstance(asg, dict) or sorted(asg) != sorted(vm):
        P.append(("api-solve:assignment-incomplete", "solve() returned %r for variables %r (mapping %r)" % (asg, sorted(vm), r["mapping"])))
        return P, W, r, "incomplete"
    for n, val in asg.items():
        if val not in vm[n]["domain"]:
            P.append(("api-solve:value-outside-domain", "%s = %r not in %r" % (n, val, vm[n]["domain"])))
            return P, W, r, "bad-value"
    got = gen.total_cost(case, asg)
    best, _ = gen.brute_force(case)
    if not gen.close(got, best, 1e-9):
        P.append(("api-solve:not-optimal", "%s problem: solve() returned %r costing %r, optimum %r" % (case["objective"], asg, got, best)))
    r["metrics"] = {"assignment": asg}
    return P, W, r, "solved"


def cli_solve_run(case, dist, na, seed):
    """the same kind of instance through the real command line (`pydcop -t T --output f solve --algo dpop -d <dist> dcop.yaml`
    run as a child process importing the repository under test): the DCOP goes through dcop_yaml / load_dcop_from_file,
    the distribution is 'oneagent' or a distribution file written by the harness; judged on the JSON result file"""
    import json
    import os
    import random as _r
    import shutil
    import subprocess
    import sys
    import tempfile
    import time
    import yaml
    from pydcop.dcop import yamldcop

    rng = _r.Random(seed)
    # what the YAML format can express: cost functions of variables are expressions (integer domains); the costs of the
    # other variables are dropped from the instance (case is this run's own copy)
    import copy
    import math

    case = copy.deepcopy(case)
    for v in case["variables"]:
        if v.get("costs") and not (all(isinstance(x, int) and not isinstance(x, bool) for x in v["domain"]) and
                                   all(isinstance(c, (int, float)) and not math.isinf(c) for c in v["costs"])):
            v["costs"] = None
    dcop, agents, algo_def, cg = orch.build_problem(case, "dpop", {}, na, cost_style="expr")
    W = {"case": case, "dist": dist, "nagents": na, "seed": seed, "api": "command line"}
    r = {"errors": []}
    d = tempfile.mkdtemp(prefix="pvc22cli_")
    try:
        with open(os.path.join(d, "dcop.yaml"), "w") as f:
            f.write(yamldcop.dcop_yaml(dcop))
        if dist == "oneagent" and na >= len(case["variables"]):
            darg = "oneagent"
            r["mapping"] = {"(oneagent, computed by the command)": [v["name"] for v in case["variables"]]}
        else:
            try:
                distribution = orch.make_distribution(dist if dist != "oneagent" else "random", cg, agents, rng, seed)
            except Exception:
                return [], W, r, "distribution-failed"
            r["mapping"] = {a: list(cs) for a, cs in distribution.mapping().items()}
            darg = os.path.join(d, "dist.yaml")
            with open(darg, "w") as f:
                f.write(yaml.dump({"distribution": r["mapping"]}))
        W["mapping"] = r["mapping"]
        out = os.path.join(d, "result.json")
        code = "import sys; sys.path.insert(0, %r); from pydcop.dcop_cli import main; sys.argv = ['pydcop'] + sys.argv[1:]; main()" % common.REPO
        argv = [sys.executable, "-W", "ignore", "-c", code, "-t", str(int(T)), "--output", out, "solve", "--algo", "dpop", "-d", darg,
                "--infinity", "10000",  # the command's default is float('inf'); the instances use 10000 as the API runs do
                os.path.join(d, "dcop.yaml")]
        cm = rng.choice(["value_change", "cycle_change", "period"])
        r["collect_moment"] = "command line -c " + cm
        argv[argv.index("--algo"):argv.index("--algo")] = ["-c", cm] + (["--period", "0.1"] if cm == "period" else [])
        t0 = time.time()
        try:
            pr = subprocess.run(argv, cwd=d, stdout=subprocess.PIPE, stderr=subprocess.STDOUT, text=True, timeout=T + 60)
        except subprocess.TimeoutExpired:
            return [("harness:cli-solve-watchdog", "the solve command had not exited after %d s" % (T + 60))], W, r, "blocked"
        r["run_wall"] = time.time() - t0
        P = []
        if not os.path.exists(out):
            P.append(("cli-solve:no-result", "pydcop solve exited with code %s without writing its result file; output tail: %s" % (pr.returncode, pr.stdout[-400:])))
            return P, W, r, "error"
        res = json.load(open(out))
    finally:
        shutil.rmtree(d, ignore_errors=True)
    r["status"] = res.get("status")
    W["status"] = r["status"]
    if res.get("status") != "FINISHED":
        P.append(("cli-solve:status", "pydcop solve --algo dpop reported status %r after %.1f s (timeout %s s), mapping %r" % (res.get("status"), r["run_wall"], T, r["mapping"])))
        return P, W, r, "timeout" if res.get("status") == "TIMEOUT" else "error"
    asg = res.get("assignment") or {}
    vm = gen.var_map(case)
    if sorted(asg) != sorted(vm):
        P.append(("cli-solve:assignment-incomplete", "assignment %r for variables %r" % (asg, sorted(vm))))
        return P, W, r, "incomplete"
    for n, val in asg.items():
        if val not in vm[n]["domain"]:
            P.append(("cli-solve:value-outside-domain", "%s = %r not in %r" % (n, val, vm[n]["domain"])))
            return P, W, r, "bad-value"
    got = gen.total_cost(case, asg)
    best, _ = gen.brute_force(case)
    if not gen.close(got, best, 1e-9):
        P.append(("cli-solve:not-optimal", "%s problem: reported assignment %r costs %r, optimum %r" % (case["objective"], asg, got, best)))
    viol, cost = accounting(case, asg)
    if res.get("violation") != viol or not gen.close(res.get("cost"), cost, 1e-9):
        P.append(("cli-solve:reported-cost-mismatch", "reported cost %r / violation %r, accounting of the reported assignment gives %r / %r" % (
            res.get("cost"), res.get("violation"), cost, viol)))
    r["metrics"] = {"assignment": asg, "cost": res.get("cost"), "violation": res.get("violation"), "msg_count": res.get("msg_count")}
    return P, W, r, "solved"


def worker(job):
    R = common.WorkerResult()
    seed = job["seed"]
    for i in range(job["lo"], job["hi"]):
        rng = common.rng_for(seed, "C22", i)
        case, dist, na = gen_run(rng)
        rseed = (seed * 1000003 + i * 17) & 0x7FFFFFFF
        lines = bool(job.get("lines")) and i % 2 == 0
        try:
            if i % 8 == 5:
                P, W, r, outcome = cli_solve_run(case, dist, na, rseed)
                R.count("runs_through_the_solve_command_line")
            elif i % 4 == 3:
                P, W, r, outcome = api_solve_run(case, dist, na, rseed)
                R.count("runs_through_infrastructure_run_solve")
            else:
                P, W, r, outcome = check_run(case, dist, na, rseed, lines)
        except Exception:
            import traceback

            R.violation("harness:exception", traceback.format_exc()[-700:], {"index": i})
            continue
        mapping = r.get("mapping") or {}
        used_agents = [a for a, cs in mapping.items() if cs]
        shared = any(len(c["scope"]) >= 2 for c in case["constraints"])
        nontrivial = outcome == "solved" and shared and len(used_agents) >= 2
        R.case(common.stable_hash([gen.case_sig(case), sorted((a, sorted(cs)) for a, cs in mapping.items())]), nontrivial,
               sample={"variables": len(case["variables"]), "constraints": len(case["constraints"]), "objective": case["objective"],
                       "palette": case["palette"], "dist": dist, "mapping": mapping, "status": r.get("status"),
                       "metrics": r.get("metrics"), "run_wall": r.get("run_wall"), "injected": r.get("injected")} if nontrivial and i % 6 == 0 else None)
        R.bump("outcomes", outcome)
        R.bump("collect_modes", str(r.get("collect_moment", "value_change (API / command line default)")))
        if r.get("start_delays"):
            R.count("agents_started_late", len(r["start_delays"]))
        R.bump("distributions", dist)
        R.bump("palettes", case["palette"])
        R.count("sleeps_injected", r.get("injected", 0))
        R.count("line_events", r.get("line_events", 0))
        R.count("long_stalls_injected", r.get("long_sleeps", 0))
        if r.get("metrics") and (r["metrics"].get("violation") or 0) > 0:
            R.count("optima_with_violated_hard_constraints")
        R.count("messages_between_agents", (r.get("metrics") or {}).get("msg_count") or 0)
        seen = set()
        for k, m in P:
            if k in seen:
                continue
            seen.add(k)
            R.violation(k, m, W)
    return R


def main(chk, tier, seed):
    chk.rule = RULE
    chk.assumptions = ["the run is observed on Orchestrator.run() as the solve command does (status right after run(), end_metrics())",
                       "entries equal to 10000 are the runtime's infinity (run.INFINITY) and only generated for min problems",
                       "a firing of the harness watchdog (45 s) is inconclusive, unless every agent thread is then idle with an empty queue on two samples 1.5 s apart (a quiescent system cannot make run() return any more: reported as a violation); the orchestrator's own 20 s timer is the property's bound"]
    n = 96 if tier == "quick" else 2400
    common.run_chunked(chk, "c22", n, nchunks=16 if tier == "quick" else 64, job_extra={"lines": tier == "thorough"}, timeout=600 if tier == "quick" else 3000)
    out = chk.extra.get("outcomes", {})
    chk.inconclusive_if(out.get("solved", 0) < n // 2 and not chk.violations, "only %d of %d runs reached a result" % (out.get("solved", 0), n))


def replay(payload):
    w = payload["witness"]
    for attempt in range(5):
        P, W, r, outcome = check_run(w["case"], w["dist"], w["nagents"], w["seed"], w.get("lines", False))
        print("replay attempt %d: %s %s" % (attempt, outcome, P[:2]))
        if P:
            print("VIOLATION property=C22 replay=(replayed)")
            return 1
    print("not reproduced in 5 attempts (thread schedules are not replayable exactly)")
    return 0

"""C04 - a cycle with no MGM/MGM2 move means the assignment is 1-opt (Engine A; same runs as C03)."""
from pv.checks import c03

PID = "C04"


def worker(job):
    return c03.worker(job)


def main(chk, tier, seed):
    return c03.main(chk, tier, seed, pid="C04")


def replay(payload):
    return c03.replay(payload, pid="C04")

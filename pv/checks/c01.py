"""C01 - DPOP returns an optimal assignment on every DCOP and schedule (Engine A)."""
from pv import common, gen, detsched

RULE = ("seeded generator of DCOPs (1-7 vars, domains 1-4, a third with 5-8 two-valued variables on dense graphs, shapes chain/star/tree/cycle/clique/random/"
        "components/isolated, unary+binary+ternary tables, variable costs, declared initial values in half of the instances, palettes ties/distinct/float/"
        "neg/huge, min and max); every instance run under several random per-channel-FIFO schedules with "
        "biases; non-trivial = >=2 variables sharing a constraint and >=1 UTIL and >=1 VALUE delivered; "
        "distinct by hash(instance, schedule choice list)")


def run_one(case, sched_seed, bias=None, choices=None, cost_style="dict", wire=False):
    """-> (result dict, pool)"""
    import random as _r

    dcop = gen.build_dcop(case, cost_style)
    detsched.seed_algo_rngs(sched_seed)
    comps, graph, _ = detsched.build_computations("dpop", dcop)
    pool = detsched.Pool(sched_seed, wire=wire, choices=choices)
    rng = _r.Random(sched_seed * 7919 + 1)
    names = [c.name for c in comps]
    if bias is None:
        bias = detsched.choose_bias(rng, pool, names)
    else:
        pool.bias = bias["bias"]
        pool.bias_target = bias.get("target")
        pool.late_until = bias.get("late_until", 0)
    kinds = {"UTIL": 0, "VALUE": 0}

    def ob(kind, data):
        if kind == "deliver":
            t = data[2].type
            kinds[t] = kinds.get(t, 0) + 1

    pool.observers.append(ob)
    for c in comps:
        pool.add(c)
    nlinks = sum(len(c.neighbors) for c in comps)
    budget = 50 * (nlinks + len(comps)) + 50
    status = pool.run(budget)
    res = {"status": status, "kinds": kinds, "bias": {"bias": pool.bias, "target": pool.bias_target,
                                                       "late_until": pool.late_until},
           "problems": []}
    P = res["problems"]
    if pool.errors:
        P.append(("handler-exception", "step %s raised %s" % (pool.errors[0][0], pool.errors[0][1]), pool.errors[0][2]))
    if status == "budget":
        P.append(("budget-exhausted", "DPOP still exchanging messages after %d steps" % budget, None))
    asg = {}
    for c in comps:
        fin = pool.finished.get(c.name, [])
        if status != "error":
            if len(fin) == 0:
                P.append(("not-finished", "computation %s never reported finished (pool %s, pending=%d)" % (
                    c.name, status, pool.pending()), None))
            elif len(fin) > 1:
                P.append(("finished-twice", "computation %s reported finished %d times" % (c.name, len(fin)), None))
        asg[c.name] = c.current_value
    vm = gen.var_map(case)
    complete = True
    if status != "error":
        for n, val in asg.items():
            if val is None or not any(val == d and type(val) == type(d) or val == d for d in vm[n]["domain"]):
                complete = False
                if not any(p[0] == "not-finished" for p in P):
                    P.append(("value-not-in-domain", "%s selected %r, domain %r" % (n, val, vm[n]["domain"]), None))
        if set(asg) != set(vm):
            complete = False
            P.append(("missing-variable", "computations %s vs variables %s" % (sorted(asg), sorted(vm)), None))
        if complete and not P:
            best, _ = gen.brute_force(case)
            got = gen.total_cost(case, asg)
            if not gen.close(got, best):
                P.append(("suboptimal", "DPOP cost %r != optimum %r (objective %s) assignment %r" % (
                    got, best, case["objective"], asg), None))
            res["cost"] = got
            res["optimum"] = best
    res["assignment"] = asg
    res["trace"] = list(pool.trace)
    res["delivered"] = pool.delivered
    return res, pool


def classify(case, problem):
    key = problem[0]
    return "dpop:" + key


def worker(job):
    R = common.WorkerResult()
    seed, tier = job["seed"], job["tier"]
    nsched = job["nsched"]
    for i in range(job["lo"], job["hi"]):
        rng = common.rng_for(seed, "C01", i)
        palettes = ("ties", "distinct", "float", "neg", "huge", "bigbase") if rng.random() < 0.5 else ("ties", "distinct")
        if rng.random() < 0.35:
            # larger, denser pseudo-trees (several children, separators of 2-4 ancestors) with small domains
            case = gen.gen_case(rng, nvars=rng.randint(5, 8), max_dom=2, palettes=palettes, max_space=3000, initial=rng.random() < 0.5,
                                shapes=("random", "clique", "cycle", "random"), var_costs=rng.random() < 0.5)
        else:
            case = gen.gen_case(rng, max_vars=7 if tier == "thorough" else 6, max_dom=4 if rng.random() < 0.3 else 3,
                                palettes=palettes, max_space=3000, initial=rng.random() < 0.5)
        csig = gen.case_sig(case)
        shared = any(len(c["scope"]) >= 2 for c in case["constraints"])
        cost_style = rng.choice(["dict", "dict", "expr", "func"])
        for s in range(nsched):
            sseed = (seed * 1000003 + i * 101 + s) & 0x7FFFFFFF
            wire = False  # the wire format is C15 territory (see c15.py differential runs)
            res, pool = run_one(case, sseed, cost_style=cost_style, wire=wire)
            nontrivial = shared and res["kinds"].get("UTIL", 0) >= 1 and res["kinds"].get("VALUE", 0) >= 1
            sig = common.stable_hash([csig, res["trace"]])
            R.case(sig, nontrivial, sample={"case": case, "bias": res["bias"], "schedule_head": res["trace"][:30],
                                            "assignment": res["assignment"], "cost": res.get("cost"),
                                            "optimum": res.get("optimum")} if nontrivial else None)
            R.count("messages_delivered", res["delivered"])
            R.count("util_delivered", res["kinds"].get("UTIL", 0))
            R.count("value_delivered", res["kinds"].get("VALUE", 0))
            R.count("optimum_compared", 1 if "optimum" in res else 0)
            R.bump("shapes", case["shape"])
            R.bump("biases", res["bias"]["bias"])
            R.bump("objectives", case["objective"])
            R.bump("palettes", case["palette"])
            if wire:
                R.count("runs_through_wire_format")
            for p in res["problems"]:
                R.violation(classify(case, p), p[1], {"case": case, "sched_seed": sseed, "bias": res["bias"],
                                                       "choices": res["trace"], "cost_style": cost_style,
                                                       "wire": wire, "trace": p[2]})
    return R


def main(chk, tier, seed):
    chk.rule = RULE
    chk.assumptions = ["per-channel FIFO for same-priority messages (what Messaging guarantees)",
                       "brute-force optimum over harness-owned cost tables is the oracle",
                       "messages passed by reference as in thread mode; a fraction of runs goes through the JSON wire format"]
    n = 1000 if tier == "quick" else 24000
    nsched = 3 if tier == "quick" else 6
    common.run_chunked(chk, "c01", n, nchunks=16 if tier == "quick" else 64, job_extra={"nsched": nsched}, timeout=1800)
    chk.inconclusive_if(chk.counters.get("optimum_compared", 0) < n, "optimum compared on only %d runs" %
                        chk.counters.get("optimum_compared", 0)) if not chk.violations and not chk.known_seen else None
    chk.inconclusive_if(chk.counters.get("value_delivered", 0) < 50, "too few VALUE messages observed")


def replay(payload):
    w = payload["witness"]
    res, pool = run_one(w["case"], w["sched_seed"], bias=w["bias"], choices=list(w["choices"]),
                        cost_style=w.get("cost_style", "dict"), wire=w.get("wire", False))
    print("replay: status=%s problems=%s" % (res["status"], [(p[0], p[1]) for p in res["problems"]]))
    if res["problems"]:
        print("VIOLATION property=C01 replay=(replayed)")
        return 1
    return 0

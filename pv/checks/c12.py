"""C12 - matrix updates, join and projection follow their algebraic definition (Engine C)."""
import itertools

from pv import common, relgen

RULE = ("generated matrix relations over 0-4 small-domain variables (int, float, beyond-2^31 tables; int and float "
        "dtypes): set_value_for_assignment with dict and list assignments (new relation differs exactly at that cell, "
        "original untouched, no aliasing), join(u1,u2) for overlapping / nested / disjoint scopes and zero-ary or "
        "function operands (dimension set == union, value == u1+u2 everywhere), projection(u,x,mode) (scope minus x, "
        "min/max over x); oracle from harness tables; non-trivial = relation arity >= 2 (set/projection) or both "
        "operands arity >= 1 with different scopes (join); distinct by hash(call)")


def table_of(spec):
    return {relgen.key_of(spec["vars"], a): relgen.spec_value(spec, a) for a in relgen.all_assignments(spec["vars"])}


def check_set_value(rng, W):
    import numpy as np

    mag = rng.choice(["small", "float", "big", "hugeint", "int63"])
    spec = relgen.gen_spec(rng, "matrix", nvars=rng.randint(0, 4) if rng.random() < 0.9 else 0, mag=mag, max_dom=3)
    if not spec.get("vars"):
        spec = {"kind": "matrix", "name": "r0", "mag": mag, "vars": [], "table": {"()": relgen.draw_value(rng, mag)}}
    rel, cache = relgen.build_relation(spec)
    before = table_of(spec)
    target = {v[0]: rng.choice(v[1]) for v in spec["vars"]}
    newval = relgen.draw_value(rng, rng.choice(["small", "float", "big"]))
    form = rng.choice(["dict", "list"])
    W.update({"op": "set_value", "spec": spec, "target": target, "value": newval, "form": form})
    m_before = np.array(rel._m, copy=True) if hasattr(rel, "_m") else None
    if form == "dict":
        new = rel.set_value_for_assignment(dict(target), newval)
    else:
        new = rel.set_value_for_assignment([target[v[0]] for v in spec["vars"]], newval)
    # original unchanged
    for a in relgen.all_assignments(spec["vars"]):
        got = rel(**a) if a else rel.get_value_for_assignment([])
        if not relgen.same(got, before[relgen.key_of(spec["vars"], a)]):
            return "set_value:original-modified", "original relation changed at %r: %r -> %r" % (a, before[relgen.key_of(spec["vars"], a)], got)
    if m_before is not None and not np.array_equal(m_before, rel._m):
        return "set_value:original-modified", "original matrix buffer changed"
    if [d.name for d in new.dimensions] != [v[0] for v in spec["vars"]]:
        return "set_value:dimensions", "new relation dimensions %r != %r" % ([d.name for d in new.dimensions], [v[0] for v in spec["vars"]])
    # int matrix receiving a float: numpy would truncate silently; the statement says the new relation holds the value
    for a in relgen.all_assignments(spec["vars"]):
        got = new(**a) if a else new.get_value_for_assignment([])
        want = newval if a == target else before[relgen.key_of(spec["vars"], a)]
        if not relgen.same(got, want):
            key = "set_value:wrong-cell" if a != target else "set_value:value-not-stored"
            if a == target and isinstance(newval, float) and relgen.same(got, int(newval)):
                key = "set_value:float-truncated-in-int-matrix"
            return key, "after set(%r)=%r (%s form) value at %r is %r, expected %r" % (target, newval, form, a, got, want)
    # no aliasing: modifying the new one must not touch the old one
    return None, None


def gen_operand(rng, pool_vars, mag):
    k = rng.choice(["matrix", "matrix", "func_kwargs", "zeroary"])
    if k == "zeroary":
        return {"kind": "zeroary", "name": "z", "vars": [], "value": relgen.draw_value(rng, mag), "mag": mag}
    n = rng.randint(1, min(3, len(pool_vars)))
    vs = rng.sample(pool_vars, n)
    spec = {"kind": k, "name": "u", "mag": mag, "vars": vs}
    spec["table"] = {relgen.key_of(vs, a): relgen.draw_value(rng, mag) for a in relgen.all_assignments(vs)}
    return spec


def check_join(rng, W):
    from pydcop.dcop.relations import join

    mag = rng.choice(["small", "float", "big", "hugeint", "int63"])
    pool_vars = relgen.draw_vars(rng, rng.randint(1, 4), 3)
    s1, s2 = gen_operand(rng, pool_vars, mag), gen_operand(rng, pool_vars, mag)
    s1["name"], s2["name"] = "u1", "u2"
    W.update({"op": "join", "u1": s1, "u2": s2})
    cache = {}
    r1, cache = relgen.build_relation(s1, cache)
    r2, cache = relgen.build_relation(s2, cache)
    j = join(r1, r2)
    union = []
    for v in s1["vars"] + s2["vars"]:
        if v not in union:
            union.append(v)
    dims = [d.name for d in j.dimensions]
    if sorted(dims) != sorted(v[0] for v in union) or len(dims) != len(set(dims)):
        return "join:dimensions", "join dimensions %r, expected the union %r" % (dims, [v[0] for v in union])
    for a in relgen.all_assignments(union):
        want = relgen.spec_value(s1, a) + relgen.spec_value(s2, a)
        got = j(**a) if a else j.get_value_for_assignment([])
        if not (same_to_double(got, want) if mag in ("hugeint", "int63") else relgen.same(got, want)):
            return "join:value", "join value at %r is %r, expected %r" % (a, got, want)
    W["nontrivial"] = bool(s1["vars"]) and bool(s2["vars"]) and s1["vars"] != s2["vars"]
    return None, None


def same_to_double(got, want):
    """join and projection results live in float64 tables: beyond 2^53 the defining value is matched to double precision
    (a few ulp), not digit by digit - anything else (a wrapped 64-bit sum, a wrong sign, a wrong operand) is far outside"""
    if relgen.same(got, want):
        return True
    try:
        g, w = float(got), float(want)
    except Exception:
        return False
    return g == g and abs(g - w) <= abs(w) * 2.0 ** -50


def check_projection(rng, W):
    from pydcop.dcop.relations import projection

    mode = rng.choice(["min", "max"])
    mag = rng.choice(["small", "float", "big", "hugeint", "int63"])
    spec = relgen.gen_spec(rng, rng.choice(["matrix", "matrix", "func_kwargs"]), nvars=rng.randint(1, 4), mag=mag, max_dom=3)
    rel, cache = relgen.build_relation(spec)
    xn = rng.choice([v[0] for v in spec["vars"]])
    W.update({"op": "projection", "spec": spec, "on": xn, "mode": mode})
    proj = projection(rel, cache[xn], mode)
    rest = [v for v in spec["vars"] if v[0] != xn]
    xdom = [v[1] for v in spec["vars"] if v[0] == xn][0]
    dims = [d.name for d in proj.dimensions]
    if sorted(dims) != sorted(v[0] for v in rest) or len(dims) != len(set(dims)):
        return "projection:dimensions", "projection dimensions %r, expected %r" % (dims, [v[0] for v in rest])
    for a in relgen.all_assignments(rest):
        vals = []
        for xv in xdom:
            b = dict(a)
            b[xn] = xv
            vals.append(relgen.spec_value(spec, b))
        want = min(vals) if mode == "min" else max(vals)
        got = proj(**a) if a else proj.get_value_for_assignment([])
        if not (same_to_double(got, want) if mag in ("hugeint", "int63") else relgen.same(got, want)):
            return "projection:value", "projection(%s) over %s at %r is %r, expected %r" % (mode, xn, a, got, want)
    W["nontrivial"] = len(spec["vars"]) >= 2
    return None, None


def worker(job):
    R = common.WorkerResult()
    seed = job["seed"]
    for i in range(job["lo"], job["hi"]):
        rng = common.rng_for(seed, "C12", i)
        op = [check_set_value, check_join, check_projection][i % 3]
        W = {}
        try:
            key, msg = op(rng, W)
        except Exception as e:
            import traceback

            key, msg = "%s:exception:%s" % (W.get("op", op.__name__), type(e).__name__), "%s raised %s: %s" % (W.get("op"), type(e).__name__, e)
            W["trace"] = traceback.format_exc()[-1200:]
        nontrivial = W.pop("nontrivial", None)
        if nontrivial is None:
            nontrivial = len((W.get("spec") or {}).get("vars", [])) >= 2
        R.case(common.stable_hash(W), nontrivial, sample=W if nontrivial else None)
        R.bump("operations", W.get("op", "?"))
        if key:
            R.violation(key, msg, W)
    return R


def main(chk, tier, seed):
    chk.rule = RULE
    chk.assumptions = ["oracle tables are harness-owned dicts", "values below 2^53 (float64 matrices are what join/projection build)"]
    n = 12000 if tier == "quick" else 450000
    common.run_chunked(chk, "c12", n, nchunks=16 if tier == "quick" else 64, timeout=3000)
    ops = chk.extra.get("operations", {})
    for o in ("set_value", "join", "projection"):
        chk.inconclusive_if(ops.get(o, 0) < 100, "operation %s exercised only %d times" % (o, ops.get(o, 0)))


def replay(payload):
    print("witness:", str(payload["witness"])[:2000])
    print("helper-call cases are addressed by (seed, index): re-run `./check C12 %s` with VERIF_SEED=%s" % (payload["tier"], payload["seed"]))
    print("VIOLATION property=C12 replay=(recorded witness)")
    return 1

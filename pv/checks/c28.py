"""C28 - algorithm parameters are validated and completed exactly (Engine C)."""
import io
import contextlib

from pv import common

RULE = ("for every shipped algorithm module (list_available_algorithms; modules that cannot be imported are listed) and its "
        "declared algo_params: random subsets of parameters with values that are valid, valid but falsy (0, 0.0), valid given "
        "as strings, of the wrong type, outside the allowed values, plus unknown names; through prepare_algo_params, "
        "AlgorithmDef.build_with_default_param (with and without explicit definitions) and commands._utils.build_algo_def "
        "with 'name:value' strings; oracle from the declarations: result keys == declared names, value == converted user "
        "value or default, invalid/unknown => an error (ValueError/TypeError, SystemExit for the CLI helper), never a "
        "silently accepted or replaced value; non-trivial = >= 1 user-supplied parameter; distinct by hash(algo, params, api)")


def conv_expected(pdef, val):
    """-> ('ok', expected) | ('error',) | ('either', expected) for lossy-but-convertible numerics"""
    t = pdef.type
    cls = val.__class__.__name__
    if cls != t and isinstance(val, {"int": int, "float": float, "str": str}.get(t, ())) or cls in ("float64", "int64", "str_"):
        # an instance of a subclass of the declared type (bool for int, numpy.float64 for float, a str subclass): it may
        # be rejected, but if it is accepted the result must be a plain value of the declared type
        try:
            exp = {"int": int, "float": float, "str": str}[t](val)
        except Exception:
            return ("error",)
        if pdef.values and exp not in pdef.values:
            return ("error",)
        return ("either", exp)
    if cls == t:
        exp = val
        status = "ok"
    elif t == "int":
        if isinstance(val, bool):
            return ("either", int(val))
        if isinstance(val, float):
            return ("either", int(val))
        if isinstance(val, str):
            try:
                exp = int(val)
            except ValueError:
                return ("error",)
            status = "ok"
        else:
            return ("error",)
    elif t == "float":
        if isinstance(val, bool):
            return ("either", float(val))
        if isinstance(val, (int, str)):
            try:
                exp = float(val)
            except ValueError:
                return ("error",)
            status = "ok"
        else:
            return ("error",)
    else:
        return ("error",)
    if pdef.values:
        if exp not in pdef.values:
            return ("error",)
    return (status, exp)


def draw_value(rng, pdef):
    """a user value and its category"""
    kind = rng.choice(["valid", "valid", "falsy", "as_str", "wrong_type", "outside", "garbage_str", "subclass"])
    t = pdef.type
    if kind == "subclass":
        import numpy as np

        class MyStr(str):
            pass

        if t == "int":
            return rng.choice([True, False, np.int64(3)])
        if t == "float":
            return rng.choice([np.float64(0.25), np.float64(1.0), True])
        return rng.choice([np.str_(rng.choice(pdef.values) if pdef.values else "x"), MyStr(rng.choice(pdef.values) if pdef.values else "y")])
    if kind == "valid":
        if pdef.values:
            return rng.choice(pdef.values)
        return {"int": rng.randint(1, 50), "float": round(rng.uniform(0.01, 2), 3), "str": "abc"}[t]
    if kind == "falsy":
        return {"int": 0, "float": 0.0, "str": ""}[t]
    if kind == "as_str":
        if pdef.values:
            return str(rng.choice(pdef.values))
        return {"int": str(rng.randint(0, 50)), "float": rng.choice(["0.25", "0", "1e-3", "3"]), "str": "x"}[t]
    if kind == "wrong_type":
        return {"int": rng.choice([None, [1], "1.5"]), "float": rng.choice([None, [0.5], {}]), "str": rng.choice([5, 2.5, None])}[t]
    if kind == "outside":
        if pdef.values:
            return {"str": "not-a-valid-value", "int": 987654, "float": 9876.5}[t]
        return {"int": -3, "float": -0.5, "str": "zz"}[t]
    return "garbage"


def check_one(rng, algo, mod, R):
    from pydcop.algorithms import prepare_algo_params, AlgorithmDef
    from pydcop.commands._utils import build_algo_def

    problems = []
    defs = list(mod.algo_params)
    by_name = {d.name: d for d in defs}
    k = rng.randint(0, len(defs))
    chosen = rng.sample(defs, k) if defs else []
    user = {d.name: draw_value(rng, d) for d in chosen}
    unknown = rng.random() < 0.25
    if unknown:
        user[rng.choice(["not_a_param", "stop_cycles", "Probability", "x"])] = rng.choice([1, "a"])
    api = rng.choice(["prepare", "build_default", "build_default_explicit", "cli"])
    if api == "cli":
        # the CLI only carries strings
        user = {k_: (v if isinstance(v, str) else repr(v) if isinstance(v, (int, float)) and not isinstance(v, bool) else None) for k_, v in user.items()}
        user = {k_: v for k_, v in user.items() if v is not None and ":" not in v}
    witness = {"algo": algo, "api": api, "user_params": user, "declared": [[d.name, d.type, d.values, d.default_value] for d in defs]}
    # oracle
    must_fail = any(n not in by_name for n in user)
    expected = {d.name: ("ok", d.default_value) for d in defs}
    for n, v in user.items():
        if n in by_name:
            e = conv_expected(by_name[n], v)
            if e[0] == "error":
                must_fail = True
            expected[n] = e
    either_fail = any(e[0] == "either" for e in expected.values())
    try:
        if api == "prepare":
            got = prepare_algo_params(dict(user), defs)
        elif api == "build_default":
            got = AlgorithmDef.build_with_default_param(algo, dict(user), mode="min").params
        elif api == "build_default_explicit":
            got = AlgorithmDef.build_with_default_param(algo, dict(user), mode="max", parameters_definitions=defs).params
        else:
            buf = io.StringIO()
            with contextlib.redirect_stdout(buf), contextlib.redirect_stderr(buf):
                got = build_algo_def(mod, algo, "min", ["%s:%s" % kv for kv in user.items()] or None).params
        raised = None
    except (ValueError, TypeError) as e:
        raised = e
    except SystemExit as e:
        raised = e
        if api != "cli":
            problems.append(("%s:SystemExit-from-api" % api, "%s(%r) exited the interpreter" % (api, user)))
    except Exception as e:
        raised = e
        problems.append(("%s:unexpected-exception:%s" % (api, type(e).__name__), "%s(%s, %r) raised %s: %s" % (api, algo, user, type(e).__name__, e)))
    R.count("calls_checked")
    if raised is not None:
        if not must_fail and not either_fail and not problems:
            problems.append(("%s:valid-parameters-rejected" % api, "%s(%s, %r) raised %s: %s" % (api, algo, user, type(raised).__name__, str(raised)[:150])))
        return problems, witness
    if must_fail:
        bad = [n for n in user if n not in by_name] or [n for n, e in expected.items() if e[0] == "error"]
        key = "%s:unknown-parameter-accepted" % api if any(n not in by_name for n in user) else "%s:invalid-value-accepted" % api
        problems.append((key, "%s(%s, %r) returned %r although %r is %s" % (
            api, algo, user, got, bad, "not declared" if "unknown" in key else "invalid")))
        return problems, witness
    if sorted(got) != sorted(by_name):
        problems.append(("%s:wrong-parameter-set" % api, "%s(%s, %r) keys %r != declared %r" % (api, algo, user, sorted(got), sorted(by_name))))
        return problems, witness
    for n, e in expected.items():
        gv = got[n]
        if gv != e[1] or (e[0] in ("ok", "either") and n in user and type(gv).__name__ != by_name[n].type and gv is not None):
            key = "%s:wrong-value" % api
            if n in user and not user[n] and user[n] is not None:
                key = "%s:falsy-user-value-replaced" % api
            problems.append((key, "%s(%s, %r)[%s] == %r (%s), expected %r (declared %s, default %r)" % (
                api, algo, user, n, gv, type(gv).__name__, e[1], by_name[n].type, by_name[n].default_value)))
    return problems, witness


def worker(job):
    from pydcop.algorithms import list_available_algorithms, load_algorithm_module

    R = common.WorkerResult()
    seed = job["seed"]
    mods = {}
    for a in sorted(list_available_algorithms()):
        try:
            mods[a] = load_algorithm_module(a)
        except Exception as e:
            R.bump("modules_not_importable", "%s: %s" % (a, type(e).__name__))
    names = sorted(mods)
    for i in range(job["lo"], job["hi"]):
        rng = common.rng_for(seed, "C28", i)
        algo = names[i % len(names)]
        problems, witness = check_one(rng, algo, mods[algo], R)
        R.case(common.stable_hash(witness), bool(witness["user_params"]), sample=witness if i % 40 == 0 and witness["user_params"] else None)
        R.bump("algorithms", algo)
        R.bump("apis", witness["api"])
        for k, m in problems:
            R.violation(k, m, witness)
    return R


def main(chk, tier, seed):
    chk.rule = RULE
    chk.assumptions = ["lossy but convertible numerics (float given for an int parameter, bool) may be converted or rejected"]
    n = 12000 if tier == "quick" else 600000
    common.run_chunked(chk, "c28", n, nchunks=16 if tier == "quick" else 64, timeout=3000)
    chk.inconclusive_if(len(chk.extra.get("algorithms", {})) < 10, "fewer than 10 algorithm modules exercised")
    chk.inconclusive_if(len(chk.extra.get("apis", {})) < 4, "not all entry points exercised")


def replay(payload):
    print("witness:", payload["witness"], "->", payload["what"])
    print("VIOLATION property=C28 replay=(recorded witness)")
    return 1

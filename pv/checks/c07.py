"""C07 - cycle-bounded local search finishes after stop_cycle cycles (Engine A)."""
from pv import common, gen, lsrun

RULE = ("seeded DCOPs (1-6 vars incl. isolated and unary-only variables, n-ary constraints, duplicate scopes) run "
        "with mgm, mgm2 and dsa (variants A/B/C, p_mode fixed/arity) with stop_cycle k in 1..10 under random FIFO "
        "schedules and start orders (all biases incl. late starter); monitors: exactly one finished() per "
        "computation, at cycle_count == k (or during start() without neighbour), no handler exception, quiescence "
        "with everybody finished within the step budget; non-trivial = >= 2 computations with neighbours and k >= 2; "
        "distinct by hash(instance, algo, params, schedule)")


def make_run(rng):
    algo = rng.choice(["mgm", "mgm2", "dsa"])
    k = rng.randint(1, 10)
    if algo == "mgm":
        params = {"stop_cycle": k, "break_mode": rng.choice(["lexic", "random"])}
    elif algo == "mgm2":
        params = {"stop_cycle": k, "threshold": rng.choice([0.2, 0.5, 0.9]),
                  "favor": rng.choice(["unilateral", "no", "coordinated"])}
    else:
        params = {"stop_cycle": k, "variant": rng.choice(["A", "B", "C"]), "probability": rng.choice([0.3, 0.7, 1.0]),
                  "p_mode": rng.choice(["fixed", "fixed", "arity"])}
    return algo, params


def check_run(case, algo, params, run):
    pool = run["pool"]
    k = params["stop_cycle"]
    P = []
    if pool.errors:
        P.append(("handler-exception", "step %s raised %s" % (pool.errors[0][0], pool.errors[0][1]), pool.errors[0][2]))
        return P
    if run["status"] == "budget":
        P.append(("budget-exhausted", "still exchanging messages after %d steps (stop_cycle %d)" % (run["budget"], k), None))
        return P
    nb = gen.neighbors(case)
    for name, comp in run["comps"].items():
        fins = run["fin_cycle"].get(name, [])
        has_nb = bool(nb.get(name))
        if len(fins) == 0:
            P.append(("never-finished", "%s (neighbours %s) never reported finished; quiescent with %d pending, state cycle=%d" % (
                name, sorted(nb.get(name, [])), pool.pending(), comp.cycle_count), None))
        elif len(fins) > 1:
            P.append(("finished-twice", "%s reported finished %d times (cycles %s)" % (name, len(fins), fins), None))
        elif has_nb and fins[0] != k:
            P.append(("finished-at-wrong-cycle", "%s finished at cycle %d, stop_cycle is %d" % (name, fins[0], k), None))
        elif not has_nb:
            # must have finished inside its start() step: no message was ever delivered to it
            if pool.finished[name][0] != pool.start_step.get(name):
                P.append(("isolated-not-immediate", "%s has no neighbour but did not finish in start()" % name, None))
    return P


def worker(job):
    R = common.WorkerResult()
    seed, tier = job["seed"], job["tier"]
    for i in range(job["lo"], job["hi"]):
        rng = common.rng_for(seed, "C07", i)
        case = gen.gen_case(rng, min_vars=1, max_vars=6, max_dom=3, palettes=("ties", "distinct", "neg", "inf"),
                            max_space=800, initial=True)
        if case["palette"] == "inf":
            case["objective"] = "min"  # an infinite cost is a hard constraint of a minimisation problem
        csig = gen.case_sig(case)
        nb = gen.neighbors(case)
        for s in range(job["nsched"]):
            algo, params = make_run(rng)
            sseed = (seed * 1000003 + i * 101 + s) & 0x7FFFFFFF
            run = lsrun.run_ls(case, algo, params, sseed)
            pool = run["pool"]
            probs = check_run(case, algo, params, run)
            with_nb = sum(1 for n in nb if nb[n])
            nontrivial = with_nb >= 2 and params["stop_cycle"] >= 2
            R.case(common.stable_hash([csig, algo, params, pool.trace]), nontrivial,
                   sample={"case": case, "algo": algo, "params": params, "bias": run["bias"],
                           "schedule_head": pool.trace[:30], "finished_at_cycle": run["fin_cycle"]} if nontrivial else None)
            R.count("messages_delivered", pool.delivered)
            R.count("finished_calls", sum(len(v) for v in run["fin_cycle"].values()))
            R.count("computations", len(run["comps"]))
            R.count("isolated_computations", sum(1 for n in nb if not nb[n]))
            R.bump("algos", algo)
            R.bump("biases", run["bias"]["bias"])
            R.bump("stop_cycles", str(params["stop_cycle"]))
            for p in probs:
                R.violation("%s:%s" % (algo, p[0]), "%s %s: %s" % (algo, params, p[1]),
                            {"case": case, "algo": algo, "params": params, "sched_seed": sseed, "bias": run["bias"],
                             "choices": list(pool.trace), "trace": p[2]})
    return R


def main(chk, tier, seed):
    chk.rule = RULE
    chk.assumptions = ["bounded progress: budget 60*k*(#links+#computations+1)+200 scheduler steps; local search with a cycle bound is finite",
                       "per-channel FIFO delivery, free start order"]
    n = 2400 if tier == "quick" else 100000
    common.run_chunked(chk, "c07", n, nchunks=16 if tier == "quick" else 64,
                       job_extra={"nsched": 3 if tier == "quick" else 4}, timeout=3000)
    chk.inconclusive_if(chk.counters.get("finished_calls", 0) < 500, "too few finished() notifications observed")
    chk.inconclusive_if(chk.counters.get("isolated_computations", 0) < 10, "no neighbour-less computation observed")


def replay(payload):
    w = payload["witness"]
    run = lsrun.run_ls(w["case"], w["algo"], w["params"], w["sched_seed"], bias=w["bias"], choices=list(w["choices"]))
    probs = check_run(w["case"], w["algo"], w["params"], run)
    print("replay: status=%s problems=%s" % (run["status"], [(p[0], p[1]) for p in probs]))
    if probs:
        print("VIOLATION property=C07 replay=(replayed)")
        return 1
    return 0

"""C27 - after an agent removal every computation runs on exactly one live agent (Engine B, fault enumeration)."""
import itertools
import logging
import os
import random as _r
import shutil
import tempfile
import threading
import time

from pv import common, gen, orch, threaded

LEVEL = "fault_enumeration"

RULE = ("resilient thread-mode runs (run_local_thread_dcop(replication='dist_ucs_hostingcosts') + deploy_computations + "
        "start_replication(k) + wait_ready + run(scenario)) of non-terminating solvers (dsa, mgm, amaxsum, and maxsum in 1/7 of the instances) on generated "
        "connected DCOPs of 4-6 variables with 4-6 agents of ample capacity (every agent hosts >= 1 computation), k in 1..2; "
        "fault enumeration: for each instance the departing set of the removal event ranges over the subsets of size 1..k "
        "of the agents (thorough: every subset of every instance; quick: a seeded sample of instance x subset pairs); "
        "perturbation: switch interval 1e-5, random sleeps around Messaging.post_msg / next_msg; observation: wrapper on "
        "AgentsMgt._dump_repair_metrics (reported status), snapshots of every agent's hosted_replicas before the event and, "
        "1.2 s after the repair report (resume drained), of the orchestrator's directory and of every surviving agent's "
        "computations(); oracle: status reported exactly once per event; status OK <=> every original computation is in the "
        "directory on exactly one surviving agent, really hosted there and nowhere else, and each re-hosted computation "
        "landed on an agent that held its replica; when every orphaned computation had a surviving replica the status must "
        "be OK; plus the premise made checkable under the deterministic scheduler: replication at level k with ample capacity "
        "everywhere gives every computation min(k, other agents) replicas (160 / 4000 generated deployments); "
        "non-trivial = >= 1 orphaned computation re-hosted; distinct by hash(instance, mapping, k, departing set)")


def gen_instance(rng):
    algo = rng.choice(["dsa", "mgm", "amaxsum", "dsa", "mgm", "amaxsum", "maxsum"])
    if rng.random() < 0.5:
        case = gen.gen_case(rng, min_vars=4, max_vars=6, max_dom=3, palettes=("ties", "distinct"), max_space=800, nary=False,
                            unary=False, var_costs=False, binary_only=True, str_domains=False, dup_scopes=False,
                            shapes=("chain", "tree", "cycle", "star"))
    else:
        # the general case: n-ary, unary and duplicate-scope constraints, variable costs, string domains (connected shapes)
        case = gen.gen_case(rng, min_vars=4, max_vars=6, max_dom=3, palettes=("ties", "distinct", "float"), max_space=800,
                            shapes=("chain", "tree", "cycle", "star"))
    nv = len(case["variables"])
    na = min(rng.randint(4, 6), nv if algo not in ("maxsum", "amaxsum") else 6)
    k = rng.randint(1, 2)
    return {"algo": algo, "case": case, "nagents": na, "k": k, "map_seed": rng.randint(0, 10 ** 6)}


def build_mapping(inst, cg):
    """every agent hosts at least one computation"""
    rr = _r.Random(inst["map_seed"])
    names = sorted(n.name for n in cg.nodes)
    rr.shuffle(names)
    agents = ["a%d" % i for i in range(inst["nagents"])]
    mapping = {a: [] for a in agents}
    for i, n in enumerate(names):
        a = agents[i] if i < len(agents) else rr.choice(agents)
        mapping[a].append(n)
    return mapping


def subsets(inst):
    agents = ["a%d" % i for i in range(inst["nagents"])]
    out = []
    for size in range(1, inst["k"] + 1):
        out += [list(s) for s in itertools.combinations(agents, size)]
    return out


def run_removal(inst, leaving, seed, lines=False, second=False):
    from pydcop.dcop.scenario import Scenario, DcopEvent, EventAction
    from pydcop.distribution.objects import Distribution
    from pydcop.infrastructure.run import run_local_thread_dcop
    from pydcop.infrastructure import orchestrator as om, orchestratedagents as oam, communication as comm_mod, \
        agents as agents_mod, discovery as disc_mod

    logging.disable(logging.CRITICAL)
    out = {"errors": [], "reports": [], "leaving": leaving, "fatal": [], "timeline": []}
    dcop, agents, algo_def, cg = orch.build_problem(inst["case"], inst["algo"], {}, inst["nagents"])
    mapping = build_mapping(inst, cg)
    out["mapping"] = mapping
    comps = sorted(n.name for n in cg.nodes)
    out["computations"] = comps
    out["neighbors"] = {n.name: sorted(n.neighbors) for n in cg.nodes}
    dist = Distribution({a: list(cs) for a, cs in mapping.items()})
    per = threaded.Perturb(seed, p_sleep=0.15, lines=lines)
    Messaging = comm_mod.Messaging
    orig_post, orig_next = Messaging.post_msg, Messaging.next_msg

    def post_msg(self, *a, **k):
        per.jitter()
        return orig_post(self, *a, **k)

    def next_msg(self, *a, **k):
        r = orig_next(self, *a, **k)
        per.jitter()
        return r

    AG = {}
    t0 = time.time()
    orig_init = oam.OrchestratedAgent.__init__

    def agent_init(self, agt_def, *a, **k):
        orig_init(self, agt_def, *a, **k)
        AG[agt_def.name] = self
        name = agt_def.name
        self.on_fatal_error = lambda e: out["fatal"].append((name, "%s: %s" % (type(e).__name__, str(e)[:300])))

    orig_dump = om.AgentsMgt._dump_repair_metrics
    reported = threading.Event()

    def dump(self, status, duration):
        rep = {"status": status, "t": time.time() - t0}
        try:
            rep.update(snapshot())
        except Exception as e:
            rep["snapshot_error"] = "%s: %s" % (type(e).__name__, e)
        out["reports"].append(rep)
        reported.set()
        return orig_dump(self, status, duration)

    d = tempfile.mkdtemp(prefix="pvc27_")
    cwd = os.getcwd()
    o = None

    def snapshot():
        snap = {"directory": {}, "hosted": {}}
        for a in list(o.discovery.agents()):
            try:
                snap["directory"][a] = sorted(c for c in o.discovery.agent_computations(a) if c in comps)
            except Exception as e:
                snap["directory"][a] = "%s: %s" % (type(e).__name__, e)
        for a, ag in AG.items():
            try:
                snap["hosted"][a] = sorted(c.name for c in ag.computations() if c.name in comps)
                snap.setdefault("alive", {})[a] = ag.t.is_alive()
            except Exception as e:
                snap["hosted"][a] = "%s: %s" % (type(e).__name__, e)
        return snap

    def body():
        nonlocal o
        o = run_local_thread_dcop(algo_def, cg, dist, dcop, 10000, replication="dist_ucs_hostingcosts")
        import traceback as _tb

        o._own_agt.on_fatal_error = lambda e: out["fatal"].append(("orchestrator", "%s: %s | %s" % (type(e).__name__, str(e)[:300], " < ".join(
            "%s:%d" % (f.name, f.lineno) for f in reversed(_tb.extract_tb(e.__traceback__)[-5:])))))
        if os.environ.get("PV_DEBUG_DIR"):
            for meth in ("stop", "clean_shutdown"):
                def mk(meth, orig):
                    def w(*a, **k):
                        out.setdefault("orch_stop_calls", []).append((meth, threading.current_thread().name, " < ".join(
                            "%s:%d" % (f.name, f.lineno) for f in reversed(_tb.extract_stack()[-7:-1]))))
                        return orig(*a, **k)
                    return w
                setattr(o._own_agt, meth, mk(meth, getattr(o._own_agt, meth)))
        o.deploy_computations()
        o.start_replication(inst["k"])
        if not o.wait_ready():
            out["errors"].append("wait_ready() returned False after replication")
            return
        out["replicas_before"] = {a: sorted(ag.replication_comp.hosted_replicas) for a, ag in AG.items()}
        out["replica_hosts_before"] = {c: sorted(o.discovery.replica_agents(c)) for c in comps}

        def observer():
            if reported.wait(15):
                time.sleep(1.2)
                try:
                    out["after"] = snapshot()
                    out["after"]["t"] = time.time() - t0
                except Exception as e:
                    out["errors"].append("snapshot: %s: %s" % (type(e).__name__, e))
                if second and "after" in out and not out["errors"]:
                    try:
                        second_event()
                    except Exception as e:
                        import traceback

                        out["errors"].append("second event: " + traceback.format_exc()[-500:])
            out["observer_done"] = True

        def second_event():
            """a second removal event once the first repair is over: the departing agents are drawn among the survivors
            (preferably a new host of a re-hosted computation), at most k of them, at least two agents stay"""
            rr = _r.Random(seed + 17)
            S2 = out["second"] = {}
            survivors = sorted(a for a, ag in AG.items() if a not in leaving and ag.t.is_alive())
            kk = min(inst["k"], len(survivors) - 2)
            if kk < 1 or any(a not in leaving for a, _ in out["fatal"]):
                S2["skipped"] = "too few survivors" if kk < 1 else "a surviving agent crashed"
                return
            # bounded wait on a logical condition: the replication level is back (re-hosted computations are replicated
            # again by their new host, lost replicas are placed again by their owners)
            want = min(inst["k"], len(survivors) - 1)
            t_wait = time.time()
            deadline = t_wait + 8

            def busy():
                # a replication search still in progress somewhere, or messages still queued on a surviving agent
                for a in survivors:
                    try:
                        if not AG[a].replication_comp._replication_in_progress.is_empty() or AG[a]._messaging._queue.qsize() > 0:
                            return True
                    except Exception:
                        pass
                return False

            while True:
                holders = {c: sorted(a for a in survivors if c in AG[a].replication_comp.hosted_replicas) for c in comps}
                if all(len(h) >= want for h in holders.values()):
                    break
                if time.time() > deadline:
                    # on a loaded machine the searches may simply not be over: as long as something is still moving the wait
                    # goes on, up to 40 s in all; what is not restored by then is judged
                    if busy() and time.time() - t_wait < 40:
                        deadline = time.time() + 2
                        S2["waited_beyond_8s"] = True
                        continue
                    break
                time.sleep(0.05)
            S2["level_restored"] = all(len(h) >= want for h in holders.values())
            S2["level_wanted"] = want
            deadline = time.time() + 10
            while time.time() < deadline:
                st = dict(o.mgt._agts_state)
                if all(v == "running" for a, v in st.items()):
                    break
                time.sleep(0.01)
            else:
                S2["skipped"] = "agents' states never back to running: %r" % (dict(o.mgt._agts_state),)
                return
            snap = snapshot()
            moved = sorted(a for a in survivors if set(snap["hosted"].get(a, [])) - set(mapping[a]))
            pool = moved if moved and rr.random() < 0.7 else survivors
            first = rr.choice(pool)
            leaving2 = sorted({first} | set(rr.sample(survivors, rr.randint(1, kk)))) [:kk] if kk > 1 and rr.random() < 0.5 else [first]
            S2["leaving"] = leaving2
            S2["before"] = snap
            S2["lost_requests_before"] = list(out["lost_requests"])
            S2["replicas_before"] = {a: sorted(AG[a].replication_comp.hosted_replicas) for a in survivors}
            S2["replica_hosts_before"] = {}
            for c in comps:
                try:
                    S2["replica_hosts_before"][c] = sorted(o.discovery.replica_agents(c))
                except Exception as e:
                    S2["replica_hosts_before"][c] = "%s" % type(e).__name__
            n0 = out["n_first_reports"] = len(out["reports"])
            sc2 = Scenario([DcopEvent("e2", actions=[EventAction("remove_agent", agent=a) for a in leaving2])])
            out["timeline"].append(("event2", time.time() - t0))
            o._events_iterator = iter(sc2)
            o._process_event()
            deadline = time.time() + 15
            while time.time() < deadline and len(out["reports"]) <= n0:
                time.sleep(0.02)
            S2["reports"] = out["reports"][n0:]
            if S2["reports"]:
                time.sleep(1.2)
                S2["after"] = snapshot()
            S2["fatal"] = list(out["fatal"])

        th = threading.Thread(target=observer, name="pv_observer", daemon=True)
        th.start()
        sc = Scenario([DcopEvent("e1", actions=[EventAction("remove_agent", agent=a) for a in leaving])])

        def injector():
            # Orchestrator.run(scenario) looks at the agents' state before its own "run" request has been handled and
            # then postpones the first event by 20 s; the harness hands the same scenario to the same _process_event()
            # once every agent is reported running (what run(scenario) does, only later)
            deadline = time.time() + 15
            while time.time() < deadline:
                st = dict(o.mgt._agts_state)
                if st and all(v == "running" for v in st.values()):
                    break
                time.sleep(0.01)
            time.sleep(0.1 + _r.Random(seed).random() * 0.3)
            out["timeline"].append(("event", time.time() - t0))
            o._events_iterator = iter(sc)
            o._process_event()

        # the solver never terminates: the run is ended by the harness once the observation is made (bounded wait)
        def stopper():
            th.join(70 if second else 30)
            out["timeline"].append(("stopper", time.time() - t0))
            try:
                # what the orchestrator's own timer does when it fires
                if getattr(o, "_timeout_timer", None):
                    o._timeout_timer.cancel()
                o._on_timeout()
            except Exception as e:
                out["errors"].append("stop: %s" % e)
            out["timeline"].append(("stopped", time.time() - t0))

        threading.Thread(target=injector, name="pv_injector", daemon=True).start()
        threading.Thread(target=stopper, name="pv_stopper", daemon=True).start()
        out["timeline"].append(("run", time.time() - t0))
        o.run(None, timeout=90 if second else 40)
        out["timeline"].append(("run returned", time.time() - t0))
        th.join(5)
        out["status"] = o.status

    from pydcop.replication import dist_ucs_hostingcosts as ucs_mod

    orig_lost = ucs_mod.UCSReplication._answer_lost_requests
    out["lost_requests"] = []

    def answer_lost(self, agent):
        # observation only: (agent that had forwarded the request, departed agent it was sent to, computation)
        for rq_agt, rq_comp in list(self._pending_requests):
            if rq_agt == agent:
                out["lost_requests"].append((self.agt_name, agent, rq_comp))
        return orig_lost(self, agent)

    ucs_mod.UCSReplication._answer_lost_requests = answer_lost
    # injected delay at the end of a repair computation (between "the winner re-replicates" and "the losers drop their old
    # replica"): widens the window in which the new host's requests meet candidates that have not finished yet
    orig_fin = agents_mod.ResilientAgent._on_repair_computation_finished
    fin_rng = _r.Random(seed + 99)
    fin_lock = threading.Lock()

    def repair_finished(self, computation):
        with fin_lock:
            d_ = fin_rng.choice([0, 0, 0.003, 0.02])
        if d_:
            time.sleep(d_)
        return orig_fin(self, computation)

    agents_mod.ResilientAgent._on_repair_computation_finished = repair_finished
    Messaging.post_msg, Messaging.next_msg = post_msg, next_msg
    oam.OrchestratedAgent.__init__ = agent_init
    om.AgentsMgt._dump_repair_metrics = dump
    per.start(modules=(comm_mod, agents_mod, disc_mod, om, oam))
    try:
        os.chdir(d)
        err = []

        def guarded():
            try:
                body()
            except Exception:
                import traceback

                err.append(traceback.format_exc()[-800:])

        drv = threading.Thread(target=guarded, name="pv_driver", daemon=True)
        drv.start()
        drv.join(150 if second else 100)
        if drv.is_alive():
            import sys
            import traceback

            stacks = []
            names = {t.ident: t.name for t in threading.enumerate()}
            for tid, fr in sys._current_frames().items():
                nm = names.get(tid, "?")
                if nm.startswith("pv_") or nm.startswith("thread_"):
                    stacks.append("%s: %s" % (nm, " < ".join("%s:%d" % (f.name, f.lineno) for f in reversed(traceback.extract_stack(fr)[-4:]))))
            try:
                known = sorted(o.discovery.agents())
            except Exception as e:
                known = "%s" % e
            out["errors"].append("harness watchdog: driver still blocked after %d s; orchestrator thread alive %r, stop calls %r; leaving %r second %r; directory agents %r; alive %r; fatal %r; timeline %r; reports %r; states %r; threads %s" % (
                150 if second else 100, o._own_agt.t.is_alive(), out.get("orch_stop_calls"), leaving, (out.get("second") or {}).get("leaving"), known, sorted(a for a, ag in AG.items() if ag.t.is_alive()), out["fatal"][:12],
                out["timeline"], [x.get("status") for x in out["reports"]],
                dict(getattr(getattr(o, "mgt", None), "_agts_state", {}) or {}), " | ".join(stacks)[:1500]))
            if os.environ.get("PV_DEBUG_DIR"):
                with open(os.path.join(os.environ["PV_DEBUG_DIR"], "c27_watchdog_%d.txt" % os.getpid()), "a") as f_:
                    f_.write(out["errors"][-1] + "\n\n")
        out["errors"] += err
    finally:
        per.stop()
        Messaging.post_msg, Messaging.next_msg = orig_post, orig_next
        ucs_mod.UCSReplication._answer_lost_requests = orig_lost
        agents_mod.ResilientAgent._on_repair_computation_finished = orig_fin
        oam.OrchestratedAgent.__init__ = orig_init
        om.AgentsMgt._dump_repair_metrics = orig_dump
        if o is not None:
            try:
                if getattr(o, "_timeout_timer", None):
                    o._timeout_timer.cancel()
                if getattr(o, "_event_timer", None):
                    o._event_timer.cancel()
                o.stop_agents(5)
                o.stop()
            except Exception as e:
                out["errors"].append("stop: %s: %s" % (type(e).__name__, e))
            # observation: agent threads still alive after the orchestrator's stop (they are then asked again, directly)
            time.sleep(0.05)
            out["alive_after_stop"] = sorted(a for a, ag in AG.items() if ag.t.is_alive())
            for a in out["alive_after_stop"]:
                try:
                    AG[a].clean_shutdown()
                except Exception:
                    pass
        os.chdir(cwd)
        shutil.rmtree(d, ignore_errors=True)
    out["wall"] = time.time() - t0
    out["injected"] = per.injected
    return out


def placement_problems(snap, comps, owner, leaving, survivors, holders, orphaned):
    bad, rehosted = [], 0
    for c in comps:
        dir_hosts = sorted(a for a, cs in snap["directory"].items() if isinstance(cs, list) and c in cs)
        real_hosts = sorted(a for a, cs in snap["hosted"].items() if isinstance(cs, list) and c in cs and a not in leaving)
        ghost_hosts = sorted(a for a, cs in snap["hosted"].items() if isinstance(cs, list) and c in cs and a in leaving and snap.get("alive", {}).get(a))
        if len(dir_hosts) != 1 or dir_hosts[0] not in survivors:
            bad.append(("directory", c, "directory lists %s on %r (survivors %r, really hosted on %r)" % (c, dir_hosts, survivors, real_hosts)))
            continue
        if real_hosts != dir_hosts:
            bad.append(("hosted", c, "directory says %s runs on %r but surviving agents really hosting it are %r" % (c, dir_hosts, real_hosts)))
            continue
        if not snap.get("alive", {}).get(dir_hosts[0], True):
            bad.append(("dead-host", c, "%s is registered on %s whose thread is not alive" % (c, dir_hosts[0])))
            continue
        if ghost_hosts:
            bad.append(("ghost", c, "%s still hosted by the removed, still running agent %r" % (c, ghost_hosts)))
            continue
        if c in orphaned:
            rehosted += 1
            if dir_hosts[0] not in holders[c]:
                bad.append(("no-replica", c, "%s re-hosted on %s which held no replica of it (replica holders %r)" % (c, dir_hosts[0], holders[c])))
        elif dir_hosts[0] != owner[c]:
            bad.append(("moved", c, "%s was not orphaned but moved from %s to %s" % (c, owner[c], dir_hosts[0])))
    return bad, rehosted


def analyse(inst, r):
    """-> (problems, stats)"""
    P = []
    S = {"rehosted": 0, "orphaned": 0, "in_scope": False}
    dead = [e for a, e in r.get("fatal", []) if a == "orchestrator"]
    if dead:
        # the orchestrator's own agent thread (directory, management) ended with an exception: no later event of the run can
        # be repaired or reported, and run() never returns
        return [("orchestrator-thread-died:%s" % dead[0].split(":")[0], "the orchestrator's agent thread died during a resilient run (departure of %r): %s" % (
            sorted(r["leaving"]), dead[0]))], S
    if r["errors"]:
        return [("harness:exception", r["errors"][0])], S
    leaving = set(r["leaving"])
    mapping = r["mapping"]
    comps = r["computations"]
    owner = {c: a for a, cs in mapping.items() for c in cs}
    orphaned = sorted(c for c in comps if owner[c] in leaving)
    S["orphaned"] = len(orphaned)
    reports = r["reports"][:r.get("n_first_reports", len(r["reports"]))]
    survivors = sorted(set(mapping) - leaving)
    replicas_before = r["replicas_before"]
    holders = {c: sorted(a for a, reps in replicas_before.items() if c in reps) for c in comps}
    S["in_scope"] = all(any(h not in leaving for h in holders[c]) for c in orphaned)
    S["replication_level_reached"] = all(len(holders[c]) >= inst["k"] for c in comps)
    # level the runtime could reach: replication spreads along agents hosting neighbouring computations, so the
    # candidates of a computation are the other agents of its owner's connected component in that agent graph
    nbc = r.get("neighbors") or {}
    adj = {a: set() for a in mapping}
    for c, ns in nbc.items():
        for n in ns:
            if n in owner and owner[n] != owner[c]:
                adj[owner[c]].add(owner[n])
                adj[owner[n]].add(owner[c])
    comp_of = {}
    for a in mapping:
        if a in comp_of:
            continue
        stack, seen = [a], {a}
        while stack:
            x = stack.pop()
            for y in adj[x]:
                if y not in seen:
                    seen.add(y)
                    stack.append(y)
        for x in seen:
            comp_of[x] = seen
    short = {c: (len(holders[c]), min(inst["k"], len(comp_of[owner[c]]) - 1)) for c in comps
             if len(holders[c]) < min(inst["k"], len(comp_of[owner[c]]) - 1)}
    S["level_short_of_reachable"] = short
    if short:
        # every agent of these instances has ample capacity, so each computation must get min(k, agents its owner can reach)
        # replicas; fewer means a later removal can leave it without any surviving replica although the premise held
        P.append(("replication-level-not-reached-with-ample-capacity",
                  "replication reported done with fewer replicas than possible {computation: (placed, reachable)}: %r (k=%d, mapping %r, holders %r)" % (
                      short, inst["k"], mapping, {c: holders[c] for c in short})))
    if len(reports) == 0:
        if not S["in_scope"]:
            # some orphaned computation had no surviving replica: outside the property's premise; nothing was reported OK
            S["status"] = "no-report(out-of-scope)"
            return P, S
        P.append(("no-repair-report", "removal of %r: the orchestrator never reported a repair status within 15 s (orphaned %r, replica holders %r, agent thread errors %r)" % (
            sorted(leaving), orphaned, {c: holders[c] for c in orphaned}, r.get("fatal"))))
        return P, S
    if len(reports) > 1:
        P.append(("several-repair-reports", "removal of %r reported %d times: %r" % (sorted(leaving), len(reports), [x["status"] for x in reports])))
    status = reports[0]["status"]
    S["status"] = status
    after = r.get("after")
    crashed = sorted({a for a, e in r.get("fatal", []) if a not in leaving})
    if after is None:
        if crashed:
            # every surviving agent died before the observation point: the run ended by itself
            errs = sorted({e.split(":")[0] for a, e in r["fatal"] if a not in leaving})
            return [("agents-crash-after-repair:%s:%s" % (inst["algo"], "+".join(errs)),
                     "after the repair of the removal of %r the threads of surviving agents %r died: %s" % (sorted(leaving), crashed, r["fatal"][0][1]))], S
        return [("harness:no-snapshot", "observer did not take the snapshot")], S
    bad, S["rehosted"] = placement_problems(after, comps, owner, leaving, survivors, holders, orphaned)
    if "directory" in reports[0]:
        bad0, _ = placement_problems(reports[0], comps, owner, leaving, survivors, holders, orphaned)
        S["placement_complete_at_report"] = not bad0
    ctx = " [%s, k=%d, departing %r, mapping %r, replica holders %r]" % (inst["algo"], inst["k"], sorted(leaving), mapping, holders)
    if crashed:
        errs = sorted({e.split(":")[0] for a, e in r["fatal"] if a not in leaving})
        P.append(("agents-crash-after-repair:%s:%s" % (inst["algo"], "+".join(errs)),
                  "after the repair of the removal of %r the threads of surviving agents %r died: %s" % (sorted(leaving), crashed, r["fatal"][0][1]) + ctx))
    elif status == "OK" and bad:
        P.append(("reported-OK-but:%s" % bad[0][0], "repair reported OK but " + bad[0][2] + ctx))
    if not crashed and status != "OK" and S["in_scope"]:
        P.append(("repair-failed-in-scope:%s" % (bad[0][0] if bad else "placement-fine"),
                  "repair reported %r although every orphaned computation had a surviving replica; %s" % (status, bad[0][2] if bad else "placement is fine") + ctx))
    if status != "OK" and not bad:
        P.append(("reported-KO-but-fine", "repair reported %r but every computation is hosted exactly once on a survivor" % status + ctx))
    S["status"] = status
    return P, S


def analyse_second(inst, r):
    """the same oracle for the second event of the run; 'owner' is the placement observed after the first repair"""
    S2 = r.get("second") or {}
    St = {"done": False}
    if not S2 or "skipped" in S2 or "leaving" not in S2:
        St["skipped"] = S2.get("skipped", "not run")
        return [], St
    comps = r["computations"]
    leaving1, leaving2 = set(r["leaving"]), set(S2["leaving"])
    before = S2["before"]
    owner = {}
    for a, cs in before["hosted"].items():
        if isinstance(cs, list) and a not in leaving1:
            for c in cs:
                owner.setdefault(c, a)
    if sorted(owner) != sorted(comps):
        St["skipped"] = "placement before the second event incomplete"
        return [], St
    survivors = sorted(a for a in r["mapping"] if a not in leaving1 and a not in leaving2)
    orphaned = sorted(c for c in comps if owner[c] in leaving2)
    holders = {c: sorted(a for a, reps in S2["replicas_before"].items() if c in reps) for c in comps}
    St["over_replicated"] = {c: holders[c] for c in comps if len(holders[c]) > inst["k"]}
    St.update(done=True, orphaned=len(orphaned), level_restored=bool(S2.get("level_restored")),
              in_scope=all(any(h not in leaving2 for h in holders[c]) for c in orphaned))
    ctx = " [second event: %s, k=%d, first departure %r, then %r, placement before %r, replica holders %r]" % (
        inst["algo"], inst["k"], sorted(leaving1), sorted(leaving2), {a: cs for a, cs in before["hosted"].items() if a not in leaving1}, holders)
    P = []
    if not S2.get("level_restored"):
        short = {c: holders[c] for c in comps if len(holders[c]) < S2["level_wanted"]}
        lost = S2.get("lost_requests_before") or []
        # mechanism of the known finding: the search for a replica host went through an agent other than the computation's
        # host, which forwarded the request to a departed agent whose departure it had not learnt yet; the request is lost
        # and answered as "nothing found", the search ends below the level and is not tried again
        # (searches started together by one host follow the same paths: a record for another computation of the same host,
        # lost at an agent other than that host, counts for its sibling too)
        by_intermediate = all(any(at != owner[c] and (comp == c or owner.get(comp) == owner[c]) for at, gone, comp in lost) for c in short)
        key = "replication-level-not-restored:request-forwarded-to-a-departed-agent-by-an-intermediate-agent" if by_intermediate \
            else "replication-level-not-restored-after-repair"
        ctx += " lost requests (forwarding agent, departed agent, computation): %r" % (lost,)
        P.append((key,
                  "after the first repair (departure of %r; waited 8 s, up to 40 s while searches were still in progress) these computations still have fewer than %d replicas on the surviving agents: %r" % (
                      sorted(leaving1), S2["level_wanted"], short) + ctx))
    reports = S2.get("reports") or []
    crashed = sorted({a for a, e in S2.get("fatal", []) if a not in leaving1 and a not in leaving2})
    if not reports:
        if crashed:
            errs = sorted({e.split(":")[0] for a, e in S2["fatal"] if a in crashed})
            P.append(("agents-crash-after-repair:%s:%s" % (inst["algo"], "+".join(errs)), "surviving agents %r died: %s" % (crashed, [e for a, e in S2["fatal"] if a in crashed][0]) + ctx))
        elif St["in_scope"]:
            P.append(("no-repair-report", "second removal: the orchestrator never reported a repair status within 15 s (orphaned %r)" % (orphaned,) + ctx))
        return P, St
    if len(reports) > 1:
        P.append(("several-repair-reports", "second removal reported %d times" % len(reports) + ctx))
    status = reports[0]["status"]
    St["status"] = status
    after = S2.get("after")
    if after is None:
        return P, St
    bad, St["rehosted"] = placement_problems(after, comps, owner, leaving1 | leaving2, survivors, holders, orphaned)
    if crashed:
        errs = sorted({e.split(":")[0] for a, e in S2["fatal"] if a in crashed})
        P.append(("agents-crash-after-repair:%s:%s" % (inst["algo"], "+".join(errs)), "surviving agents %r died: %s" % (crashed, [e for a, e in S2["fatal"] if a in crashed][0]) + ctx))
    elif status == "OK" and bad:
        P.append(("reported-OK-but:%s" % bad[0][0], "repair reported OK but " + bad[0][2] + ctx))
    if not crashed and status != "OK" and St["in_scope"]:
        P.append(("repair-failed-in-scope:%s" % (bad[0][0] if bad else "placement-fine"),
                  "repair reported %r although every orphaned computation had a surviving replica; %s" % (status, bad[0][2] if bad else "placement is fine") + ctx))
    return P, St


def level_problems(seed, i):
    """the premise of the property, made checkable: replication asked at level k with ample capacity everywhere reaches
    min(k, number of other agents) replicas for every computation (deterministic scheduler over the real UCSReplication /
    Discovery / Directory computations, messages passed by reference as between in-process agents)"""
    from pv.checks import c25

    rng = common.rng_for(seed, "C27-level", i)
    dep = c25.gen_deployment(rng)
    for a in dep["agents"]:
        own = sum(c["footprint"] for c in dep["comps"] if c["agent"] == a)
        dep["agent_defs"][a]["capacity"] = own + 1000
    w, status = c25.run_dep(dep, (seed * 1000003 + i) & 0x7FFFFFFF)
    W = {"deployment": dep, "index": i}
    if status != "quiescent":
        return [], W, 0  # termination and handler exceptions are C25's subject
    final = {}
    for a, reps in w.done.items():
        for c, h in reps[-1].items():
            final[c] = h
    want = min(dep["k"], len(dep["agents"]) - 1)
    P = []
    for c in dep["comps"]:
        got = len(final.get(c["name"], []))
        if got != want:
            P.append(("replication-level-not-reached-with-ample-capacity",
                      "k=%d, %d agents with ample capacity: %s (owner %s) is replicated on %r, expected %d replicas" % (
                          dep["k"], len(dep["agents"]), c["name"], c["agent"], final.get(c["name"]), want)))
            break
    return P, W, len(dep["comps"])


def worker(job):
    R = common.WorkerResult()
    seed = job["seed"]
    for i in job.get("level_items", []):
        try:
            P, W, n = level_problems(seed, i)
        except Exception:
            import traceback

            R.violation("harness:exception", traceback.format_exc()[-700:], {"level_index": i})
            continue
        R.case(common.stable_hash(W), False, sample=None)
        R.count("replication_levels_checked_with_ample_capacity", n)
        for k, m in P:
            R.violation(k, m, W)
    for item in job["items"]:
        idx, leaving = item["instance"], item["leaving"]
        rng = common.rng_for(seed, "C27", idx)
        inst = gen_instance(rng)
        rseed = (seed * 1000003 + idx * 23 + common_hash(leaving)) & 0x7FFFFFFF
        try:
            two = (idx + len(leaving) + common_hash(leaving)) % 2 == 0
            r = run_removal(inst, leaving, rseed, lines=bool(job.get("lines")) and idx % 2 == 0, second=two)
            P, S = analyse(inst, r)
            if two and not any(k.startswith("harness:") for k, _ in P):
                P2, St = analyse_second(inst, r)
                P = P + P2
                R.bump("second_event", "judged" if St.get("done") else "skipped: %s" % str(St.get("skipped"))[:60])
                if St.get("done"):
                    R.count("second_events_judged")
                    R.count("second_event_orphaned_computations", St.get("orphaned", 0))
                    R.count("second_event_rehosted_computations", St.get("rehosted", 0))
                    R.bump("second_event_status", str(St.get("status")))
                    R.bump("second_event_scope", "surviving-replica-for-every-orphan" if St.get("in_scope") else "some-orphan-without-surviving-replica")
                    R.bump("replication_level_restored_before_second_event", str(St.get("level_restored")))
                    R.bump("replicas_per_computation_after_first_repair", "more than k somewhere" if St.get("over_replicated") else "at most k everywhere")
        except Exception:
            import traceback

            R.violation("harness:exception", traceback.format_exc()[-700:], {"instance": idx, "leaving": leaving})
            continue
        nontrivial = S.get("rehosted", 0) >= 1 and not P
        R.case(common.stable_hash([gen.case_sig(inst["case"]), r.get("mapping"), inst["k"], inst["algo"], sorted(leaving)]), nontrivial,
               sample={"algo": inst["algo"], "k": inst["k"], "agents": inst["nagents"], "mapping": r.get("mapping"), "departing": leaving,
                       "replica_holders_before": r.get("replicas_before"), "reported": [x["status"] for x in r.get("reports", [])],
                       "directory_after": (r.get("after") or {}).get("directory"), "hosted_after": (r.get("after") or {}).get("hosted"),
                       "wall": r.get("wall")} if nontrivial and (idx + len(leaving)) % 4 == 0 else None)
        R.count("orphaned_computations", S.get("orphaned", 0))
        R.count("rehosted_computations", S.get("rehosted", 0))
        R.count("sleeps_injected", r.get("injected", 0))
        R.bump("scope", "surviving-replica-for-every-orphan" if S.get("in_scope") else "some-orphan-without-surviving-replica")
        R.bump("replication", "level-k-reached" if S.get("replication_level_reached") else "fewer-than-k-replicas-placed")
        R.bump("replication_vs_reachable_agents", "below: %r" % (S.get("level_short_of_reachable"),) if S.get("level_short_of_reachable") else "min(k, reachable agents) replicas for every computation")
        R.bump("reported_status", str(S.get("status")))
        R.bump("placement_at_report_time", "complete" if S.get("placement_complete_at_report") else "incomplete-or-unknown")
        R.bump("departing_set_size", str(len(leaving)))
        R.count("runs_with_agent_threads_alive_after_orchestrator_stop", 1 if r.get("alive_after_stop") else 0)
        R.bump("algorithms", inst["algo"])
        seen = set()
        for k, m in P:
            if k in seen:
                continue
            seen.add(k)
            R.violation(k, m, {"instance_index": idx, "instance": inst, "leaving": leaving, "seed": rseed})
    return R


def common_hash(x):
    return int(common.stable_hash(x)[:6], 16)


def plan(tier, seed):
    items = []
    if tier == "quick":
        rng = common.rng_for(seed, "C27-plan")
        for idx in range(16):
            inst = gen_instance(common.rng_for(seed, "C27", idx))
            subs = subsets(inst)
            for s in rng.sample(subs, min(2, len(subs))):
                items.append({"instance": idx, "leaving": s})
        return items, False
    for idx in range(72):
        inst = gen_instance(common.rng_for(seed, "C27", idx))
        for s in subsets(inst):
            items.append({"instance": idx, "leaving": s})
    return items, True


def main(chk, tier, seed):
    chk.rule = RULE
    chk.assumptions = ["replication spreads along the agents hosting neighbouring computations, so fewer than k replicas may be placed; "
                       "the 'must be OK' clause is only judged when every orphaned computation had a surviving replica holder (counted under scope)",
                       "the state is observed 1.2 s after the repair report (resume messages drained); harness watchdog firing is inconclusive"]
    items, exhaustive = plan(tier, seed)
    nproc = 16
    nlevel = 160 if tier == "quick" else 12000
    jobs = [{"seed": seed, "items": items[i::nproc], "lines": False, "level_items": list(range(nlevel))[i::nproc]} for i in range(nproc)]
    jobs = [j for j in jobs if j["items"] or j["level_items"]]
    results = common.run_workers("c27", jobs, nproc=nproc, timeout=600 if tier == "quick" else 3000)
    # Replication shortfalls after a repair that the monitors cannot attribute to a mechanism (no lost request recorded, not
    # reproducible when the same run is repeated) show up in about one second event in 300 on a loaded machine. A change that
    # breaks re-replication shows up in a large share of the second events (6 of 13 for the stale path-target cache). The
    # shortfall is therefore judged as a rate: a violation when more than 2 % of the judged second events (and at least two
    # runs) end below the level; below that the runs are counted, not judged (DESIGN.md, section 9).
    KEY = "replication-level-not-restored-after-repair"
    short, judged = 0, 0
    for job, res, err in results:
        if res and "violations" in res:
            judged += int((res.get("counters") or {}).get("second_events_judged", 0))
            short += int((res.get("counters") or {}).get("violations_" + KEY, 0))
    if short and short <= max(1, int(0.02 * judged)):
        for job, res, err in results:
            if res and "violations" in res:
                res["violations"] = [v for v in res["violations"] if v["key"] != KEY]
                n_ = (res.get("counters") or {}).pop("violations_" + KEY, 0)
                if n_:
                    res["counters"]["second_events_with_an_unattributed_replication_shortfall_(counted,_rate_below_2%)"] = n_
    common.merge_results(chk, results)
    chk.extra["departing_sets_enumerated_per_instance"] = "all subsets of size 1..k" if exhaustive else "seeded sample of 2 subsets per instance"
    chk.inconclusive_if(chk.counters.get("rehosted_computations", 0) < 5 and not chk.violations, "fewer than 5 computations re-hosted in total")


def replay(payload):
    w = payload["witness"]
    if "deployment" in w:
        from pv.checks import c25

        wd, status = c25.run_dep(w["deployment"], (payload["seed"] * 1000003 + w["index"]) & 0x7FFFFFFF)
        print("replay: replication of the recorded deployment ended %s; hosts reported: %r" % (status, {a: r[-1] for a, r in wd.done.items()}))
        print(payload["what"])
        print("VIOLATION property=C27 replay=(recorded witness)")
        return 1
    for attempt in range(3):
        r = run_removal(w["instance"], w["leaving"], w["seed"])
        P, S = analyse(w["instance"], r)
        print("replay attempt %d: %s %s" % (attempt, S, P[:2]))
        if P:
            print("VIOLATION property=C27 replay=(replayed)")
            return 1
    print("not reproduced in 3 attempts (thread schedules are not replayable exactly)")
    return 0

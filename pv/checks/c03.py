"""C03 - MGM/MGM2 never worsen the global cost between cycles (Engine A); shared with C04."""
from pv import common, gen, lsrun

PID = "C03"
RULE = ("seeded DCOPs (2-6 vars, domains 2-4, binary and ternary constraints, unary constraints, variable costs, "
        "min and max, palettes ties/distinct/float/neg/bigbase (1e12 + 0..9)/bigmix (small costs and avoidable 1e12 penalties); a third are tie-rich 3-5 variable trees with costs in {0,1,2} or decimal fractions {0, .1, .2, .3, .4, .7} run mostly with mgm2) run with mgm (break_mode lexic/random) and mgm2 "
        "(threshold 0.2/0.5/0.9, favor unilateral/no/coordinated), stop_cycle 3..12, several random FIFO "
        "schedules each; monitor compares logical per-component cycle cuts A_k / A_k+1 (cost incl. variable "
        "costs, movers sharing a constraint); non-trivial = >=1 value change after the initial selection and "
        ">=3 completed cycles; distinct by hash(instance, algo params, schedule)")


def make_run(rng, seed, i, s, tier, tie_rich=False):
    algo = rng.choice(["mgm", "mgm2"]) if not tie_rich else rng.choice(["mgm2", "mgm2", "mgm"])
    if algo == "mgm":
        params = {"stop_cycle": rng.randint(3, 12), "break_mode": rng.choice(["lexic", "random"])}
    else:
        params = {"stop_cycle": rng.randint(3, 12), "threshold": rng.choice([0.2, 0.5, 0.9]),
                  "favor": rng.choice(["unilateral", "no", "coordinated"])}
    return algo, params


def make_case(rng, tier):
    if rng.random() < 0.35:
        # tie-rich tiny instances: exact ties between the gain of a coordinated move and of a neighbour's move, all
        # name orders between the partners and the neighbour
        case = gen.gen_case(rng, min_vars=3, max_vars=5, max_dom=2, palettes=("bin", "dec"), max_space=2000, initial=True, var_costs=False,
                            nary=False, unary=False, shapes=("chain", "star", "tree"))
        case["tie_rich"] = True
        if rng.random() < 0.6:
            # names whose lexical order differs from their length / numeric order (x10 < x2): every tie-break in the
            # protocol must use one and the same order
            pool = ["x%d" % i for i in range(1, 14)]
            new = rng.sample(pool, len(case["variables"]))
            ren = {v["name"]: new[i] for i, v in enumerate(case["variables"])}
            for v in case["variables"]:
                v["name"] = ren[v["name"]]
            for c in case["constraints"]:
                c["scope"] = [ren[n] for n in c["scope"]]
        return case
    return gen.gen_case(rng, min_vars=2, max_vars=6, max_dom=4 if rng.random() < 0.3 else 3,
                        palettes=("ties", "distinct", "float", "neg", "bigbase", "bigmix"), max_space=2000, initial=True,
                        shapes=("chain", "star", "tree", "cycle", "clique", "random", "components", "isolated"))


def analyse(case, algo, run):
    """-> (c03 problems, c04 problems, stats) ; problem = (key, what, extra)"""
    mode = case["objective"]
    p3, p4 = [], []
    stats = {"cycles": 0, "moves": 0, "nomove_cycles": 0, "nomove_cycles_multi": 0, "coordinated_moves": 0,
             "pairs_checked": 0}
    nb = gen.neighbors(case)
    has_vcost = any(v.get("costs") for v in case["variables"])
    for comp, per in lsrun.component_cuts(case, run["cuts"]):
        ks = sorted(per)
        for k in ks:
            if k + 1 not in per or k < 1:
                continue
            a, b = per[k], per[k + 1]
            stats["cycles"] += 1
            ca, cb = lsrun.comp_cost(case, comp, a), lsrun.comp_cost(case, comp, b)
            changed = [n for n in comp if a[n] != b[n]]
            stats["moves"] += len(changed)
            # partners of this cycle from the go?/go? handshake (MGM2)
            partners = set()
            for (kk, x, y) in run["go"]:
                if kk == k and (k, y, x) in run["go"] and x in comp and y in comp:
                    partners.add(frozenset((x, y)))
            coord = [p for p in partners if any(n in changed for n in p)]
            stats["coordinated_moves"] += len(coord)
            in_pair = set()
            for p in partners:
                in_pair.update(p)
            if gen.better(ca, cb, mode) and not gen.close(ca, cb):
                # classify by mechanism
                detail = {"cycle": k, "component": comp, "before": a, "after": b, "cost_before": ca,
                          "cost_after": cb, "changed": changed, "partners": [sorted(p) for p in partners]}
                key = None
                if algo == "mgm2" and any(n in in_pair for n in changed):
                    # known mechanism: the accepted coordinated gain equals the true joint gain plus the
                    # current cost of the constraints shared by the two partners (_find_best_offer)
                    mid = dict(a)
                    inflated = []
                    for p in partners:
                        x, y = sorted(p)
                        claimed = [g for (kk, s_, d_, g, v_) in run["accept"] if kk == k and {s_, d_} == {x, y}]
                        a2 = dict(a)
                        a2[x], a2[y] = b[x], b[y]
                        true_gain = ca - lsrun.comp_cost(case, comp, a2)
                        shared_cur = sum(gen.constraint_value(case, c, a) for c in case["constraints"]
                                         if x in c["scope"] and y in c["scope"])
                        detail.setdefault("pairs", []).append({"pair": [x, y], "claimed": claimed,
                                                                "true_gain": true_gain, "shared_cur": shared_cur})
                        if claimed and shared_cur != 0 and gen.close(claimed[0] - true_gain, shared_cur, 1e-6):
                            inflated.append((x, y))
                            mid[x], mid[y] = b[x], b[y]
                    cm = lsrun.comp_cost(case, comp, mid)
                    rest_ok = not (gen.better(cm, cb, mode) and not gen.close(cm, cb))
                    if inflated and rest_ok:
                        key = "mgm2:coordinated-gain-inflated-by-shared-constraint-cost"
                    else:
                        key = "mgm2:%s:worse-after-coordinated-move" % mode
                elif algo == "mgm2":
                    key = "mgm2:%s:worse-after-unilateral-move" % mode
                else:
                    key = "mgm:%s:worse-after-move" % mode
                if not key.startswith("mgm2:coordinated-gain"):
                    if [n for n in changed if gen.var_map(case)[n].get("costs")]:
                        key += ":mover-has-own-cost"
                    if len(changed) > 1 and not partners:
                        key += ":several-movers"
                p3.append((key, "%s %s component %s cost %r -> %r between cycle %d and %d (changed %s)" % (
                    algo, mode, comp, ca, cb, k, k + 1, changed), detail))
            # clause 2: constraint-sharing movers must be MGM2 partners
            for i, x in enumerate(changed):
                for y in changed[i + 1:]:
                    if y in nb[x]:
                        stats["pairs_checked"] += 1
                        if frozenset((x, y)) not in partners:
                            p3.append(("%s:%s:neighbours-move-together" % (algo, mode),
                                       "%s: neighbours %s and %s both changed value in cycle %d without being go/go partners" % (
                                           algo, x, y, k), {"cycle": k, "before": a, "after": b}))
            # C04: a no-move complete cycle => 1-opt
            if not changed:
                stats["nomove_cycles"] += 1
                if len(comp) >= 2:
                    stats["nomove_cycles_multi"] += 1
                base, imp = lsrun.improving_moves(case, comp, a)
                if imp:
                    n, val, c2 = imp[0]
                    key = "%s:%s:nomove-not-1opt" % (algo, mode)
                    if gen.var_map(case)[n].get("costs"):
                        key += ":var-has-own-cost"
                    if algo == "mgm2":
                        # known protocol limitation: an accepted (committed) pair whose gain ties with the gain
                        # announced by a third neighbour; the pair gets a NO-GO and the neighbour loses the
                        # lexical tie-break against one partner, so nobody moves.
                        for (kk, s_, d_, g, v_) in run["accept"]:
                            if kk != k or s_ not in comp:
                                continue
                            if (k, s_, d_) in run["go"] and (k, d_, s_) in run["go"]:
                                continue
                            # the limitation only covers refusals that follow the protocol's own rule: a partner
                            # answers NO-GO when one of ITS non-partner neighbours announced the same gain and has a
                            # lexically smaller name; a refusal without such a neighbour is an ordinary violation
                            justified = []
                            for x, y in ((s_, d_), (d_, s_)):
                                if (k, x, y) in run["go"]:
                                    continue  # x said GO
                                tied = [z for z in nb[x] - {y} if (k, z) in run["gains"] and gen.close(run["gains"][(k, z)], g, 1e-9)]
                                justified.append(bool(tied) and min(tied) < x)
                            if justified and all(justified):
                                key = "mgm2:committed-pair-gain-tie-with-neighbour"
                                break
                    p4.append((key, "%s %s: no variable of %s moved in cycle %d but %s=%r would change cost %r -> %r" % (
                        algo, mode, comp, k, n, val, base, c2), {"cycle": k, "assignment": a, "improving": imp[:4]}))
    return p3, p4, stats


def run_case(case, algo, params, sseed, bias=None, choices=None):
    run = lsrun.run_ls(case, algo, params, sseed, bias=bias, choices=choices)
    p3, p4, stats = analyse(case, algo, run)
    harness = []
    pool = run["pool"]
    if pool.errors:
        harness.append(("%s:handler-exception" % algo, "step %s raised %s" % (pool.errors[0][0], pool.errors[0][1]),
                        {"trace": pool.errors[0][2]}))
    return run, p3, p4, stats, harness


def worker(job):
    R = common.WorkerResult()
    seed, tier, pid = job["seed"], job["tier"], job["pid"]
    for i in range(job["lo"], job["hi"]):
        rng = common.rng_for(seed, "C03", i)  # same instances for C03 and C04
        case = make_case(rng, tier)
        csig = gen.case_sig(case)
        for s in range(job["nsched"]):
            algo, params = make_run(rng, seed, i, s, tier, tie_rich=bool(case.get("tie_rich")))
            sseed = (seed * 1000003 + i * 101 + s) & 0x7FFFFFFF
            run, p3, p4, stats, harness = run_case(case, algo, params, sseed)
            pool = run["pool"]
            if pid == "C03":
                nontrivial = stats["moves"] >= 1 and stats["cycles"] >= 3
                probs = p3
            else:
                nontrivial = stats["nomove_cycles_multi"] >= 1
                probs = p4
            R.case(common.stable_hash([csig, algo, params, pool.trace]), nontrivial,
                   sample={"case": case, "algo": algo, "params": params, "bias": run["bias"],
                           "schedule_head": pool.trace[:30], "stats": stats} if nontrivial else None)
            R.count("messages_delivered", pool.delivered)
            for k, v in stats.items():
                R.count(k, v)
            R.count("aligned_real_instants", run["aligned_instants"])
            R.bump("algos", algo)
            R.bump("objectives", case["objective"])
            for p in probs + harness:
                R.violation(p[0], p[1], {"case": case, "algo": algo, "params": params, "sched_seed": sseed,
                                         "bias": run["bias"], "choices": list(pool.trace), "detail": p[2]})
    return R


def main(chk, tier, seed, pid="C03"):
    chk.rule = RULE if pid == "C03" else RULE_C04
    chk.assumptions = ["logical per-component cycle cuts (see pv/lsrun.py) stand for the aligned instants of the statement",
                       "cost oracle from harness tables incl. variable costs", "per-channel FIFO delivery"]
    n = 2000 if tier == "quick" else 100000
    common.run_chunked(chk, "c03", n, nchunks=16 if tier == "quick" else 64,
                       job_extra={"nsched": 2 if tier == "quick" else 3, "pid": pid}, timeout=3000)
    if pid == "C03":
        chk.inconclusive_if(chk.counters.get("moves", 0) < 100, "too few value changes observed")
        chk.inconclusive_if(chk.counters.get("coordinated_moves", 0) < 5, "no coordinated MGM2 move observed")
    else:
        chk.inconclusive_if(chk.counters.get("nomove_cycles_multi", 0) < 50, "too few no-move cycles observed")


RULE_C04 = ("same runs as C03 (mgm and mgm2, min and max, seeded instances and FIFO schedules); the monitor takes every "
            "complete cycle k whose logical cut A_k+1 equals A_k on a connected component and checks by enumeration "
            "that no single variable change improves the component cost (constraints + variable costs); "
            "non-trivial = a no-move cycle on a component with >= 2 variables; distinct by hash(instance, params, schedule)")


def replay(payload, pid="C03"):
    w = payload["witness"]
    run, p3, p4, stats, harness = run_case(w["case"], w["algo"], w["params"], w["sched_seed"], bias=w["bias"],
                                           choices=list(w["choices"]))
    probs = (p3 if pid == "C03" else p4) + harness
    print("replay: status=%s problems=%s" % (run["status"], [(p[0], p[1]) for p in probs]))
    if probs:
        print("VIOLATION property=%s replay=(replayed)" % pid)
        return 1
    return 0

"""C13 - solution cost accounting matches the DCOP definition (Engine C)."""
from pv import common, gen

RULE = ("generated DCOPs (1-6 variables, unary/binary/ternary tables with hard entries == infinity and soft entries, "
        "zero-ary constant constraints, variable cost dicts/functions incl. cost == infinity and costs at falsy values "
        "0/''/False, external variables with values; in half of the cases the same DCOP object is then edited - a variable replaced by another definition of the same name, or swapped for a new variable - and evaluated again): DCOP.solution_cost on complete assignments == (count of terms equal "
        "to infinity, sum of the others); every strict sub-assignment (also padded with a foreign key) must raise "
        "ValueError; assignment_cost with/without consider_variable_cost and with values passed through **kwargs == "
        "the defining sum; DCOP.add_agents with AgentDef / list / dict; non-trivial = >= 2 constraints and >= 1 hard "
        "term or variable cost; distinct by hash(case, assignment)")

INF_VALUES = (10000, 1000, float("inf"))


def make_case(rng):
    infinity = rng.choice(INF_VALUES)
    case = gen.gen_case(rng, min_vars=1, max_vars=6, max_dom=3, palettes=("ties", "distinct", "float", "neg"),
                        max_space=500, var_costs=True)
    # falsy domain values
    for v in case["variables"]:
        r = rng.random()
        if r < 0.2 and len(v["domain"]) == 2:
            v["domain"] = [False, True]
        elif r < 0.35:
            v["domain"] = ["", "a", "b"][:len(v["domain"])]
        elif r < 0.6 and all(isinstance(x, int) for x in v["domain"]):
            v["domain"] = list(range(0, len(v["domain"])))
    # sprinkle hard entries
    for c in case["constraints"]:
        c["table"] = [infinity if rng.random() < 0.2 else x for x in c["table"]]
    for v in case["variables"]:
        if v["costs"]:
            v["costs"] = [infinity if rng.random() < 0.2 else x for x in v["costs"]]
    # terms beyond a finite infinity value (stacked penalties such as 2 * infinity, infinity + 1, -infinity): they are
    # not *equal* to the infinity value, so they are soft terms like any other
    if infinity != float("inf") and rng.random() < 0.4:
        near = [2 * infinity, infinity + 1, infinity - 1, -infinity, 3 * infinity + 0.5]
        for c in case["constraints"]:
            c["table"] = [rng.choice(near) if rng.random() < 0.15 else x for x in c["table"]]
        for v in case["variables"]:
            if v["costs"]:
                v["costs"] = [rng.choice(near) if rng.random() < 0.15 else x for x in v["costs"]]
        case["terms_beyond_infinity"] = True
    # external variables: the last variable of some cases becomes external with a fixed value
    case["external"] = {}
    if len(case["variables"]) >= 2 and rng.random() < 0.35:
        ev = case["variables"][-1]
        ev["costs"] = None
        case["external"][ev["name"]] = rng.choice(ev["domain"])
    case["constants"] = [rng.choice([infinity, rng.randint(-3, 9)]) for _ in range(rng.choice([0, 0, 1, 2]))]
    case["infinity"] = infinity
    return case


def build(case, cost_style):
    from pydcop.dcop.dcop import DCOP
    from pydcop.dcop.objects import ExternalVariable, Domain
    from pydcop.dcop.relations import ZeroAryRelation

    variables = gen.build_variables(case, cost_style)
    ext = {}
    for name, val in case["external"].items():
        v = variables.pop(name)
        ext[name] = ExternalVariable(name, v.domain, val)
    allv = dict(variables)
    allv.update(ext)
    constraints = {}
    for c in case["constraints"]:
        constraints[c["name"]] = gen.build_constraint(case, c, allv, dtype=object if any(isinstance(x, float) and x == float("inf") for x in c["table"]) else None)
    for i, k in enumerate(case["constants"]):
        constraints["k%d" % i] = ZeroAryRelation("k%d" % i, k)
    dcop = DCOP("c13", case["objective"], "", {v.domain.name: v.domain for v in allv.values()}, variables, constraints, {})
    dcop.external_variables = ext
    return dcop


def expected(case, asg):
    inf = case["infinity"]
    hard, soft = 0, 0
    full = dict(asg)
    full.update(case["external"])
    terms = [gen.constraint_value(case, c, full) for c in case["constraints"]] + list(case["constants"])
    vm = gen.var_map(case)
    for n in vm:
        terms.append(gen.var_cost(vm[n], full[n]))
    for t in terms:
        if t == inf:
            hard += 1
        else:
            soft += t
    return hard, soft


def check_case(case, rng, R):
    from pydcop.dcop.relations import assignment_cost

    problems = []
    style = rng.choice(["dict", "func", "expr"])
    dcop = build(case, style)
    inf = case["infinity"]
    internal = [v["name"] for v in case["variables"] if v["name"] not in case["external"]]
    vm = gen.var_map(case)
    asgs = list(gen.assignments(case, internal))
    rng.shuffle(asgs)
    for asg in asgs[:6]:
        want = expected(case, asg)
        try:
            got = dcop.solution_cost(dict(asg), inf)
        except Exception as e:
            problems.append(("solution_cost:exception:%s" % type(e).__name__, "solution_cost(%r) raised %s: %s" % (asg, type(e).__name__, e)))
            continue
        R.count("solution_cost_complete_checked")
        if case.get("terms_beyond_infinity"):
            R.count("solution_cost_checked_with_terms_beyond_a_finite_infinity")
        if case["external"] and rng.random() < 0.5:
            # an assignment that also carries an (out of date) entry for an external variable - e.g. a snapshot taken
            # before the sensor changed: the cost is computed with the external variable's current value
            stale = dict(asg)
            for en, cur in case["external"].items():
                others = [x for x in vm[en]["domain"] if x != cur]
                if others:
                    stale[en] = rng.choice(others)
            try:
                got_s = dcop.solution_cost(stale, inf)
                R.count("solution_cost_with_stale_external_entries_checked")
                if got_s[0] != want[0] or not gen.close(got_s[1], want[1]):
                    problems.append(("solution_cost:stale-external-entry-used", "solution_cost(%r) == %r with external variables currently at %r, definition gives %r" % (
                        stale, got_s, case["external"], want)))
            except Exception as e:
                problems.append(("solution_cost:exception-with-external-entry:%s" % type(e).__name__, "solution_cost(%r) raised %s: %s" % (stale, type(e).__name__, e)))
        if got[0] != want[0] or not gen.close(got[1], want[1]):
            key = "solution_cost:wrong"
            if case["constants"]:
                key += ":with-zeroary-constraint"
            problems.append((key, "solution_cost(%r, infinity=%r) == %r, definition gives %r" % (asg, inf, got, want)))
        # assignment_cost
        full = dict(asg)
        full.update(case["external"])
        rels = list(dcop.constraints.values())
        csum = 0
        for c in case["constraints"]:
            csum = csum + gen.constraint_value(case, c, full)
        for k in case["constants"]:
            csum = csum + k
        in_scope = set()
        for c in case["constraints"]:
            in_scope.update(c["scope"])
        vsum = 0
        for n in vm:
            if n in in_scope:  # variable costs are counted for the variables the constraints depend on
                vsum = vsum + gen.var_cost(vm[n], full[n])
        try:
            # `constraints` is declared as an Iterable: any form, also single-pass ones, must give the defining sum
            form = rng.choice(["list", "tuple", "values", "generator", "iter", "filter"])
            shape = {"list": lambda: list(rels), "tuple": lambda: tuple(rels), "values": lambda: dcop.constraints.values(),
                     "generator": lambda: (r for r in rels), "iter": lambda: iter(rels),
                     "filter": lambda: filter(lambda r: True, rels)}[form]
            R.bump("assignment_cost_constraints_given_as", form)
            got_a = assignment_cost(dict(full), shape())
            got_b = assignment_cost(dict(full), shape(), consider_variable_cost=True)
            # some values only through kwargs
            part = dict(full)
            moved = {}
            for n in list(part)[: len(part) // 2]:
                moved[n] = part.pop(n)
            got_c = assignment_cost(part, rels, False, **moved) if rels and not any(k in ("assignment", "constraints", "consider_variable_cost") for k in moved) else got_a
        except Exception as e:
            problems.append(("assignment_cost:exception:%s" % type(e).__name__, "assignment_cost(%r) raised %s: %s" % (full, type(e).__name__, e)))
            continue
        R.count("assignment_cost_checked")
        if not gen.close(got_a, csum) and not (got_a != got_a and csum != csum):
            key = "assignment_cost:wrong" + (":with-zeroary-constraint" if case["constants"] else "")
            problems.append((key, "assignment_cost(%r) == %r, sum of constraint values is %r" % (full, got_a, csum)))
        if not gen.close(got_b, csum + vsum) and not (got_b != got_b):
            problems.append(("assignment_cost:variable-costs-wrong", "assignment_cost(%r, consider_variable_cost=True) == %r, expected %r + %r" % (
                full, got_b, csum, vsum)))
        if not gen.close(got_c, csum) and not (got_c != got_c and csum != csum):
            problems.append(("assignment_cost:kwargs-wrong", "assignment_cost with values through kwargs == %r, expected %r" % (got_c, csum)))
    # incomplete assignments
    if internal and asgs:
        full = asgs[0]
        for k in range(len(internal)):
            sub = {n: full[n] for n in rng.sample(internal, k)}
            variants = [("subset", sub)]
            if k < len(internal):
                padded = dict(sub)
                for j in range(len(internal) - k):
                    padded["zz_foreign_%d" % j] = 0
                variants.append(("subset-padded-with-foreign-keys", padded))
            for vname, a in variants:
                try:
                    got = dcop.solution_cost(dict(a), inf)
                    problems.append(("incomplete:%s:accepted" % vname, "solution_cost(%r) returned %r for an incomplete assignment (variables %r)" % (a, got, internal)))
                except ValueError:
                    R.count("incomplete_rejected_with_ValueError")
                except Exception as e:
                    problems.append(("incomplete:%s:%s" % (vname, type(e).__name__),
                                     "solution_cost(%r) raised %s instead of ValueError: %s" % (a, type(e).__name__, e)))
    # the accounting follows later edits of the same DCOP object: a variable replaced by another definition with the
    # same name (other own costs), or one variable swapped for another one (the number of variables does not change)
    if internal and rng.random() < 0.5:
        import copy
        from pydcop.dcop.objects import Domain, VariableWithCostDict, Variable

        case2 = copy.deepcopy(case)
        in_scope = set()
        for c in case2["constraints"]:
            in_scope.update(c["scope"])
        free = [n for n in internal if n not in in_scope]
        vm2 = gen.var_map(case2)
        edit = rng.choice(["replace-costs", "swap"]) if free else "replace-costs"
        if edit == "replace-costs":
            n = rng.choice(internal)
            v = vm2[n]
            v["costs"] = [rng.choice([inf, rng.randint(0, 9), rng.randint(0, 9)]) for _ in v["domain"]]
            dom = dcop.variables[n].domain
            dcop.add_variable(VariableWithCostDict(n, dom, dict(zip(v["domain"], v["costs"]))))
            internal2 = list(internal)
        else:
            n = rng.choice(free)
            v = vm2[n]
            new_name = "w_" + n
            dcop.variables.pop(n)
            v["name"] = new_name
            v["costs"] = [rng.randint(0, 9) for _ in v["domain"]]
            dcop.add_variable(VariableWithCostDict(new_name, Domain("d_" + new_name, "t", list(v["domain"])), dict(zip(v["domain"], v["costs"]))))
            internal2 = [x for x in internal if x != n] + [new_name]
        asgs2 = list(gen.assignments(case2, internal2))
        rng.shuffle(asgs2)
        for asg in asgs2[:3]:
            want = expected(case2, asg)
            try:
                got = dcop.solution_cost(dict(asg), inf)
            except Exception as e:
                problems.append(("after-edit:%s:exception:%s" % (edit, type(e).__name__),
                                 "after %s of %s, solution_cost(%r) raised %s: %s" % (edit, n, asg, type(e).__name__, e)))
                continue
            R.count("solution_cost_after_edit_checked")
            if got[0] != want[0] or not gen.close(got[1], want[1]):
                problems.append(("after-edit:%s:wrong" % edit, "after %s of %s, solution_cost(%r, infinity=%r) == %r, definition gives %r" % (
                    edit, n, asg, inf, got, want)))
    return problems


def check_agents(rng, R):
    from pydcop.dcop.dcop import DCOP
    from pydcop.dcop.objects import AgentDef

    d = DCOP("a")
    names = ["a%d" % i for i in range(rng.randint(1, 4))]
    agents = [AgentDef(n, capacity=rng.randint(1, 100)) for n in names]
    form = rng.choice(["single", "list", "dict", "tuple"])
    if form == "single":
        d.add_agents(agents[0])
        want = names[:1]
    elif form == "list":
        d.add_agents(agents)
        want = names
    elif form == "tuple":
        d.add_agents(tuple(agents))
        want = names
    else:
        d.add_agents({a.name: a for a in agents})
        want = names
    R.count("add_agents_checked")
    if sorted(d.agents) != sorted(want) or any(d.agent(n).capacity != a.capacity for n, a in zip(want, agents)):
        return [("add_agents:%s" % form, "add_agents(%s) -> %r, expected %r" % (form, sorted(d.agents), want))]
    return []


def worker(job):
    R = common.WorkerResult()
    seed = job["seed"]
    for i in range(job["lo"], job["hi"]):
        rng = common.rng_for(seed, "C13", i)
        case = make_case(rng)
        try:
            problems = check_case(case, rng, R)
            problems += check_agents(rng, R)
        except Exception as e:
            import traceback

            problems = [("harness-or-build:exception:%s" % type(e).__name__, traceback.format_exc()[-800:])]
        nontrivial = len(case["constraints"]) >= 2 and (any(x == case["infinity"] for c in case["constraints"] for x in c["table"])
                                                         or any(v["costs"] for v in case["variables"]))
        R.case(gen.case_sig(case), nontrivial, sample={"case": case} if nontrivial and i % 5 == 0 else None)
        if case["external"]:
            R.count("cases_with_external_variables")
        if case["constants"]:
            R.count("cases_with_zeroary_constraints")
        for key, msg in problems:
            R.violation(key, msg, {"case": case, "index": i})
    return R


def main(chk, tier, seed):
    chk.rule = RULE
    chk.assumptions = ["oracle: plain left-to-right sums over harness tables", "infinity in {10000, 1000, inf}"]
    n = 6000 if tier == "quick" else 250000
    common.run_chunked(chk, "c13", n, nchunks=16 if tier == "quick" else 64, timeout=3000)
    chk.inconclusive_if(chk.counters.get("solution_cost_complete_checked", 0) < 500, "too few solution_cost calls")
    chk.inconclusive_if(chk.counters.get("incomplete_rejected_with_ValueError", 0) < 100 and not chk.violations, "incomplete assignments hardly exercised")


def replay(payload):
    import random

    w = payload["witness"]
    R = common.WorkerResult()
    problems = check_case(w["case"], random.Random(1), R)
    print("replay:", problems[:3])
    if problems:
        print("VIOLATION property=C13 replay=(replayed)")
        return 1
    return 0

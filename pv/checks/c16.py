"""C16 - computation graphs faithfully mirror the DCOP (Engine C, several hash seeds)."""
from pv import common, gen

RULE = ("generated DCOPs (1-8 variables incl. isolated ones, names with digit runs of different lengths, unary / binary / "
        "ternary constraints, two constraints over one scope): constraints hyper-graph (one node per variable, "
        "node.constraints == exactly the constraints containing it, neighbours symmetric == shares a constraint, links "
        "consistent), factor graph (bipartite, one node per variable and per constraint, link x-f iff x in scope(f), "
        "neighbours consistent with links), ordered graph (get_next / get_previous chain all variables once in lexical "
        "(plain string) order); oracle from the generator's description; run under 3 PYTHONHASHSEED values; "
        "non-trivial = >= 3 variables and >= 2 constraints; distinct by hash(case)")

HASHSEEDS = [0, 7, 4242]


def rename(case, rng):
    """names with digit runs of different lengths so that lexical != natural order"""
    pool = ["v1", "v2", "v10", "v11", "v100", "a07b", "a10", "a9", "x", "X2", "_u", "v02", "v20", "b"]
    rng.shuffle(pool)
    mapping = {v["name"]: pool[i] for i, v in enumerate(case["variables"])}
    for v in case["variables"]:
        v["name"] = mapping[v["name"]]
    for c in case["constraints"]:
        c["scope"] = [mapping[n] for n in c["scope"]]
    return case


def check_case(case):
    from pydcop.computations_graph import constraints_hypergraph as chg, factor_graph as fg, ordered_graph as og

    P = []
    dcop = gen.build_dcop(case)
    names = sorted(v["name"] for v in case["variables"])
    cons_of = {n: sorted(c["name"] for c in case["constraints"] if n in c["scope"]) for n in names}
    nb = gen.neighbors(case)

    # --- constraints hyper-graph
    try:
        g = chg.build_computation_graph(dcop)
        nodes = {n.name: n for n in g.nodes}
        if sorted(nodes) != names or len(g.nodes) != len(names):
            P.append(("hypergraph:nodes", "hyper-graph nodes %r, expected one per variable %r" % (sorted(n.name for n in g.nodes), names)))
        else:
            for n, node in nodes.items():
                if node.variable.name != n:
                    P.append(("hypergraph:variable", "node %s carries variable %s" % (n, node.variable.name)))
                got = sorted(c.name for c in node.constraints)
                if got != cons_of[n]:
                    P.append(("hypergraph:constraints", "node %s constraints %r, expected %r" % (n, got, cons_of[n])))
                gnb = sorted(node.neighbors)
                if gnb != sorted(nb[n]) or len(gnb) != len(set(gnb)):
                    P.append(("hypergraph:neighbors", "node %s neighbours %r, expected %r" % (n, gnb, sorted(nb[n]))))
                # links: one per constraint containing the variable, over the constraint's scope
                lk = sorted((getattr(l, "name", None), tuple(sorted(l.nodes))) for l in node.links)
                want = sorted((c["name"], tuple(sorted(set(c["scope"])))) for c in case["constraints"] if n in c["scope"])
                if lk != want:
                    P.append(("hypergraph:links", "node %s links %r, expected %r" % (n, lk, want)))
            for a in nodes:
                for b in nodes[a].neighbors:
                    if b in nodes and a not in nodes[b].neighbors:
                        P.append(("hypergraph:asymmetric", "%s lists %s as neighbour but not conversely" % (a, b)))
            # the graph's own edge set: one hyper-edge per constraint (also for constraints with identical scopes)
            glk = sorted((getattr(l, "name", None), tuple(sorted(l.nodes))) for l in g.links)
            gwant = sorted((c["name"], tuple(sorted(set(c["scope"])))) for c in case["constraints"])
            if glk != gwant:
                P.append(("hypergraph:graph-links", "graph.links %r, expected one per constraint %r" % (glk[:8], gwant[:8])))
    except Exception as e:
        P.append(("hypergraph:exception:%s" % type(e).__name__, "constraints_hypergraph.build_computation_graph raised %s: %s" % (type(e).__name__, e)))

    # --- factor graph
    try:
        g = fg.build_computation_graph(dcop)
        vnodes = {n.name: n for n in g.nodes if isinstance(n, fg.VariableComputationNode)}
        fnodes = {n.name: n for n in g.nodes if isinstance(n, fg.FactorComputationNode)}
        cnames = sorted(c["name"] for c in case["constraints"])
        if sorted(vnodes) != names or sorted(fnodes) != cnames or len(g.nodes) != len(names) + len(cnames):
            P.append(("factorgraph:nodes", "factor graph variable nodes %r / factor nodes %r, expected %r / %r" % (
                sorted(vnodes), sorted(fnodes), names, cnames)))
        else:
            for c in case["constraints"]:
                f = fnodes[c["name"]]
                if sorted(f.neighbors) != sorted(set(c["scope"])):
                    P.append(("factorgraph:factor-neighbors", "factor %s neighbours %r, expected scope %r" % (c["name"], sorted(f.neighbors), sorted(set(c["scope"])))))
                if sorted(v.name for v in f.variables) != sorted(c["scope"]):
                    P.append(("factorgraph:factor-variables", "factor %s variables %r" % (c["name"], [v.name for v in f.variables])))
                lk = sorted((l.factor_node, l.variable_node) for l in f.links)
                if lk != sorted((c["name"], n) for n in set(c["scope"])):
                    P.append(("factorgraph:factor-links", "factor %s links %r" % (c["name"], lk)))
            for n in names:
                v = vnodes[n]
                if sorted(v.neighbors) != cons_of[n]:
                    P.append(("factorgraph:variable-neighbors", "variable %s neighbours %r, expected %r" % (n, sorted(v.neighbors), cons_of[n])))
                lk = sorted((l.factor_node, l.variable_node) for l in v.links)
                if lk != sorted((c, n) for c in cons_of[n]):
                    P.append(("factorgraph:variable-links", "variable %s links %r, expected %r" % (n, lk, [(c, n) for c in cons_of[n]])))
                if sorted(v.constraints_names) != cons_of[n]:
                    P.append(("factorgraph:constraints-names", "variable %s constraints_names %r" % (n, v.constraints_names)))
            flk = sorted((l.factor_node, l.variable_node) for l in g.links)
            fwant = sorted((c["name"], n) for c in case["constraints"] for n in set(c["scope"]))
            if flk != fwant:
                P.append(("factorgraph:graph-links", "graph.links %r, expected one per (factor, variable) pair %r" % (flk[:8], fwant[:8])))
            # bipartite: no link between two nodes of the same kind
            for n in g.nodes:
                for m in n.neighbors:
                    if (n.name in vnodes) == (m in vnodes):
                        P.append(("factorgraph:not-bipartite", "%s and %s are linked" % (n.name, m)))
    except Exception as e:
        P.append(("factorgraph:exception:%s" % type(e).__name__, "factor_graph.build_computation_graph raised %s: %s" % (type(e).__name__, e)))

    # --- ordered graph
    try:
        g = og.build_computation_graph(dcop)
        nodes = {n.name: n for n in g.nodes}
        if sorted(nodes) != names or len(g.nodes) != len(names):
            P.append(("orderedgraph:nodes", "ordered graph nodes %r, expected %r" % (sorted(nodes), names)))
        else:
            firsts = [n for n in nodes if nodes[n].get_previous() is None]
            if len(firsts) != 1:
                P.append(("orderedgraph:first", "nodes without previous: %r" % firsts))
            else:
                chain = []
                cur = firsts[0]
                seen = set()
                while cur is not None and cur not in seen:
                    seen.add(cur)
                    chain.append(cur)
                    nxt = nodes[cur].get_next()
                    if nxt is not None and (nxt not in nodes or nodes[nxt].get_previous() != cur):
                        P.append(("orderedgraph:inconsistent-links", "%s.next == %s but %s.previous == %r" % (
                            cur, nxt, nxt, nodes[nxt].get_previous() if nxt in nodes else None)))
                        break
                    cur = nxt
                if chain != names and not any(p[0].startswith("orderedgraph") for p in P):
                    P.append(("orderedgraph:order", "chain %r is not all variables in lexical order %r" % (chain, names)))
            for n, node in nodes.items():
                got = sorted(c.name for c in node.constraints)
                if got != cons_of[n]:
                    P.append(("orderedgraph:constraints", "node %s constraints %r, expected %r" % (n, got, cons_of[n])))
    except Exception as e:
        P.append(("orderedgraph:exception:%s" % type(e).__name__, "ordered_graph.build_computation_graph raised %s: %s" % (type(e).__name__, e)))
    return P


def make_case(rng):
    case = gen.gen_case(rng, min_vars=1, max_vars=8, max_dom=2, palettes=("ties",), max_space=600, var_costs=rng.random() < 0.3,
                        shapes=gen.SHAPES)
    if rng.random() < 0.6:
        case = rename(case, rng)
    return case


def worker(job):
    import os

    R = common.WorkerResult()
    seed = job["seed"]
    hs = os.environ.get("PYTHONHASHSEED")
    for i in range(job["lo"], job["hi"]):
        rng = common.rng_for(seed, "C16", i)
        case = make_case(rng)
        problems = check_case(case)
        nontrivial = len(case["variables"]) >= 3 and len(case["constraints"]) >= 2
        R.case(gen.case_sig(case), nontrivial, sample={"case": case, "hashseed": hs} if nontrivial and i % 9 == 0 else None)
        R.count("graphs_built_and_checked", 3)
        R.count("cases_with_isolated_variables", 1 if any(not s for s in gen.neighbors(case).values()) else 0)
        R.bump("hashseeds", str(hs))
        seen = set()
        for k, m in problems:
            if k not in seen:
                seen.add(k)
                R.violation(k, m, {"case": case, "hashseed": hs})
    return R


def main(chk, tier, seed):
    chk.rule = RULE
    chk.assumptions = ["lexical order == plain string order of the variable names"]
    n = 1800 if tier == "quick" else 100000
    jobs = []
    per = 5 if tier == "quick" else 20
    chunk = (n + per - 1) // per
    for hsd in HASHSEEDS:
        for c in range(per):
            lo, hi = c * chunk, min(n, (c + 1) * chunk)
            if lo < hi:
                jobs.append({"seed": seed, "tier": tier, "lo": lo, "hi": hi, "hashseed": hsd})
    common.merge_results(chk, common.run_workers("c16", jobs, timeout=3000))
    chk.inconclusive_if(chk.counters.get("cases_with_isolated_variables", 0) < 10, "isolated variables hardly exercised")


def replay(payload):
    problems = check_case(payload["witness"]["case"])
    print("replay:", problems[:3])
    if problems:
        print("VIOLATION property=C16 replay=(replayed)")
        return 1
    return 0

"""C29 - batch parameter expansion is an exact cartesian product (Engine C, 3 hash seeds)."""
import itertools

from pv import common

RULE = ("generated batch parameter definitions: 1-4 parameters, 1-4 distinct values each (ints, floats, strings, "
        "booleans, scalars instead of lists), up to two nested sub-parameter dicts whose names sort before/after plain "
        "parameters; regularize_parameters -> parameters_configuration -> build_option_for_parameters; oracle: "
        "independent cartesian product (same multiset of combinations, each exactly once), same list on repeated calls "
        "and across 3 PYTHONHASHSEED values, and the option string tokenised back yields each chosen (name, value) / "
        "(name, sub:value) exactly once; build_final_command on every combination of definitions with a {variable} template "
        "in a nested value (each command shows its own combination's values, the expansion is left unchanged); non-trivial = >= 2 parameters with >= 2 values or a nested group; distinct by "
        "hash(definition)")

HASHSEEDS = [0, 5, 77]
NAMES = ["algo", "algo_params", "distribution", "dist_params", "timeout", "zeta", "a", "mode", "graph", "b_params"]
SUBNAMES = ["damping", "stop_cycle", "variant", "probability", "mode", "x"]


def draw_values(rng):
    kind = rng.choice(["ints", "floats", "strs", "mixed", "scalar", "bools"])
    k = rng.randint(1, 4)
    if kind == "ints":
        return rng.sample([0, 1, 2, 10, 20, 100, -1], k)
    if kind == "floats":
        return rng.sample([0.1, 0.5, 0.25, 1.0, 2.5], k)
    if kind == "strs":
        return rng.sample(["dsa", "mgm", "A", "B", "C", "adhoc", "a10", "a2"], k)
    if kind == "bools":
        return rng.sample([True, False], min(k, 2))
    if kind == "scalar":
        return rng.choice([5, "one", 0.5, 0, 0.0, False, True, -1])  # falsy scalars are values like any other
    return rng.sample([1, "1x", 2.5, "z", 0], k)


def gen_def(rng):
    n = rng.randint(1, 4)
    names = rng.sample(NAMES, n)
    d = {}
    nested = 0
    for nm in names:
        if nested < 2 and rng.random() < 0.35:
            nested += 1
            sub = {}
            for sn in rng.sample(SUBNAMES, rng.randint(1, 3)):
                sub[sn] = draw_values(rng)
            d[nm] = sub
        else:
            d[nm] = draw_values(rng)
    return d


def as_list(v):
    return [str(x) for x in v] if isinstance(v, list) else [str(v)]


def oracle(defn):
    """list of combinations (as canonical tuples)"""
    names = sorted(defn)
    axes = []
    for nm in names:
        v = defn[nm]
        if isinstance(v, dict):
            subnames = sorted(v)
            subaxes = [as_list(v[s]) for s in subnames]
            axes.append([tuple(zip(subnames, combo)) for combo in itertools.product(*subaxes)])
        else:
            axes.append(as_list(v))
    return [tuple(zip(names, combo)) for combo in itertools.product(*axes)]


def canon(combo):
    out = []
    for k in sorted(combo):
        v = combo[k]
        if isinstance(v, dict):
            out.append((k, tuple((s, v[s]) for s in sorted(v))))
        else:
            out.append((k, v))
    return tuple(out)


def check(defn):
    from pydcop.commands import batch

    P = []
    try:
        reg = batch.regularize_parameters(defn)
        combos = batch.parameters_configuration(reg)
        combos2 = batch.parameters_configuration(batch.regularize_parameters(defn))
    except Exception as e:
        return [("expansion:exception:%s" % type(e).__name__, "expansion of %r raised %s: %s" % (defn, type(e).__name__, e))], None
    want = oracle(defn)
    got = [canon(c) for c in combos]
    if sorted(map(repr, got)) != sorted(map(repr, want)):
        missing = [w for w in want if w not in got][:2]
        extra = [g for g in got if g not in want][:2]
        dup = len(got) - len(set(got))
        P.append(("expansion:not-the-cartesian-product", "definition %r: %d combinations (expected %d), %d duplicates, missing e.g. %r, unexpected e.g. %r" % (
            defn, len(got), len(want), dup, missing, extra)))
    if [canon(c) for c in combos2] != got:
        P.append(("expansion:order-not-deterministic", "two calls on %r give different orders" % (defn,)))
    # option strings
    for c in combos[:40]:
        try:
            s = batch.build_option_for_parameters(c)
        except Exception as e:
            P.append(("options:exception:%s" % type(e).__name__, "build_option_for_parameters(%r) raised %s" % (c, e)))
            break
        toks = s.split()
        pairs = []
        ok = True
        i = 0
        while i < len(toks):
            if not toks[i].startswith("--") or i + 1 >= len(toks):
                ok = False
                break
            pairs.append((toks[i][2:], toks[i + 1]))
            i += 2
        wantp = []
        for k, v in c.items():
            if isinstance(v, dict):
                for sk, sv in v.items():
                    wantp.append((k, "%s:%s" % (sk, sv)))
            else:
                wantp.append((k, str(v)))
        if not ok or sorted(pairs) != sorted(wantp):
            P.append(("options:wrong-rendering", "combination %r rendered as %r (expected each of %r exactly once)" % (c, s, wantp)))
            break
    # the complete command lines, built one after the other from the same expansion as run_batch does, with a
    # {variable} template in one nested value referring to a top-level option: each command must show the values of
    # its own combination, and building a command must not alter the expansion
    import copy

    plain = [k for k, v in defn.items() if not isinstance(v, dict)]
    nested = [k for k, v in defn.items() if isinstance(v, dict)]
    if plain and nested and len(combos) >= 2:
        ref = sorted(plain)[0]
        tdef = copy.deepcopy(defn)
        sub = sorted(tdef[nested[0]])[0]
        tdef[nested[0]][sub] = "t_{%s}" % ref
        try:
            tcombos = batch.parameters_configuration(batch.regularize_parameters(tdef))
            before = copy.deepcopy(tcombos)
            for c in tcombos[:30]:
                cmd, _ = batch.build_final_command("solve", {"set": "s1"}, {}, c, files=["f.yaml"])
                expect = "%s:t_%s" % (sub, c[ref])
                if expect not in cmd.split():
                    P.append(("command:template-resolved-with-another-combination", "combination %r gives command %r, expected the option value %r" % (c, cmd, expect)))
                    break
            if tcombos != before and not P:
                P.append(("command:building-a-command-alters-the-expansion", "the expansion of %r was modified while building the commands" % (tdef,)))
        except Exception as e:
            P.append(("command:exception:%s" % type(e).__name__, "build_final_command on %r raised %s: %s" % (tdef, type(e).__name__, e)))
    return P, common.stable_hash(got)


def worker(job):
    import os

    R = common.WorkerResult()
    seed = job["seed"]
    hs = str(os.environ.get("PYTHONHASHSEED"))
    table = {}
    for i in range(job["lo"], job["hi"]):
        rng = common.rng_for(seed, "C29", i)
        defn = gen_def(rng)
        P, h = check(defn)
        table[str(i)] = h
        nontrivial = sum(1 for v in defn.values() if (isinstance(v, list) and len(v) >= 2)) >= 2 or any(isinstance(v, dict) for v in defn.values())
        R.case(common.stable_hash(defn), nontrivial, sample={"definition": defn, "combinations": len(oracle(defn))} if nontrivial and i % 30 == 0 else None)
        R.count("definitions_expanded")
        R.count("definitions_with_nested_groups", 1 if any(isinstance(v, dict) for v in defn.values()) else 0)
        R.count("definitions_with_two_nested_groups", 1 if sum(isinstance(v, dict) for v in defn.values()) >= 2 else 0)
        for k, m in P:
            R.violation(k, m, {"definition": defn, "hashseed": hs})
    R["extra"]["order_hash_" + hs] = table
    return R


def main(chk, tier, seed):
    chk.rule = RULE
    chk.assumptions = ["values are distinct and free of spaces/colons", "at least one parameter (command_options is mandatory in a batch definition)"]
    n = 4800 if tier == "quick" else 200000
    per = 5 if tier == "quick" else 20
    chunk = (n + per - 1) // per
    jobs = []
    for hsd in HASHSEEDS:
        for c in range(per):
            lo, hi = c * chunk, min(n, (c + 1) * chunk)
            if lo < hi:
                jobs.append({"seed": seed, "tier": tier, "lo": lo, "hi": hi, "hashseed": hsd})
    common.merge_results(chk, common.run_workers("c29", jobs, timeout=3000))
    tables = [chk.extra.pop("order_hash_%s" % h, {}) for h in HASHSEEDS]
    compared = 0
    for idx, h0 in tables[0].items():
        for t in tables[1:]:
            if idx in t:
                compared += 1
                if t[idx] != h0:
                    chk.violation("expansion:order-depends-on-hash-seed", "case %s expands in a different order under another PYTHONHASHSEED" % idx,
                                  {"index": idx})
    chk.count("cross_hashseed_order_comparisons", compared)
    chk.inconclusive_if(compared < n, "cross hash-seed comparison incomplete (%d)" % compared)
    chk.inconclusive_if(chk.counters.get("definitions_with_two_nested_groups", 0) < 10, "two nested groups hardly exercised")


def replay(payload):
    w = payload["witness"]
    if "definition" in w:
        P, h = check(w["definition"])
        print("replay:", P[:2])
        if P:
            print("VIOLATION property=C29 replay=(replayed)")
            return 1
        return 0
    print(payload["what"])
    print("VIOLATION property=C29 replay=(recorded witness)")
    return 1

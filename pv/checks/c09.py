"""C09 - DBA declares termination only on a satisfying assignment (Engine A)."""
import random as _r

from pv import common, gen, detsched

RULE = ("seeded CONNECTED CSPs (2-7 variables): graph colouring with 2-4 colours (hard != constraints) and random hard "
        "tables with entries {0, infinity}, optional unary hard constraints, satisfiable and unsatisfiable; infinity "
        "parameter 10000 or 1000; max_distance in {diameter, diameter+1, n, 50}; random FIFO schedules with biases; at "
        "every finished() the assignment of ALL computations is read and checked against the harness tables; "
        "non-trivial = a finished() observed on a graph of diameter >= 2; distinct by hash(instance, params, schedule)")


def primal_diameter(case):
    nb = gen.neighbors(case)
    best = 0
    for s in nb:
        dist = {s: 0}
        q = [s]
        while q:
            x = q.pop(0)
            for y in nb[x]:
                if y not in dist:
                    dist[y] = dist[x] + 1
                    q.append(y)
        if len(dist) != len(nb):
            return None
        best = max(best, max(dist.values()))
    return best


def gen_csp(rng, infinity):
    n = rng.randint(2, 7)
    names = gen._names(rng, n)
    shape = rng.choice(["chain", "star", "tree", "cycle", "clique", "random"])
    scopes = gen.gen_structure(rng, names, shape)
    # make connected: add tree edges between components
    adj = {x: set() for x in names}
    for a, b in scopes:
        adj[a].add(b)
        adj[b].add(a)
    seen = set()
    comps = []
    for x in names:
        if x in seen:
            continue
        comp = [x]
        seen.add(x)
        q = [x]
        while q:
            y = q.pop()
            for z in adj[y]:
                if z not in seen:
                    seen.add(z)
                    comp.append(z)
                    q.append(z)
        comps.append(comp)
    for i in range(1, len(comps)):
        scopes.append([rng.choice(comps[i - 1]), rng.choice(comps[i])])
    colouring = rng.random() < 0.6
    k = rng.randint(2, 4)
    variables = []
    for nm in names:
        dom = list(range(k)) if colouring else list(range(rng.randint(2, 3)))
        variables.append({"name": nm, "domain": dom, "initial": None, "costs": None})
    case = {"objective": "min", "variables": variables, "constraints": [], "shape": shape,
            "palette": "colouring" if colouring else "hard-tables"}
    vm = gen.var_map(case)
    for i, (a, b) in enumerate(scopes):
        da, db = vm[a]["domain"], vm[b]["domain"]
        if colouring:
            table = [infinity if x == y else 0 for x in da for y in db]
        else:
            p = rng.choice([0.2, 0.4, 0.6])
            table = [infinity if rng.random() < p else 0 for _ in da for _ in db]
        case["constraints"].append({"name": "c%02d" % i, "scope": [a, b], "table": table, "kind": "matrix"})
    if rng.random() < 0.25:
        nm = rng.choice(names)
        d = vm[nm]["domain"]
        t = [0] * len(d)
        t[rng.randrange(len(d))] = infinity
        case["constraints"].append({"name": "u00", "scope": [nm], "table": t, "kind": "matrix"})
    return case


def violated(case, asg, infinity):
    out = []
    for c in case["constraints"]:
        if any(asg.get(n) is None for n in c["scope"]):
            out.append((c["name"], "unset"))
            continue
        if gen.constraint_value(case, c, asg) >= infinity:
            out.append((c["name"], [asg[n] for n in c["scope"]]))
    return out


def run_one(case, params, sched_seed, bias=None, choices=None):
    dcop = gen.build_dcop(case)
    detsched.seed_algo_rngs(sched_seed)
    comps, _, _ = detsched.build_computations("dba", dcop, params=params, mode="min")
    pool = detsched.Pool(sched_seed, choices=choices)
    r2 = _r.Random(sched_seed * 7919 + 1)
    if bias is None:
        detsched.choose_bias(r2, pool, [c.name for c in comps])
    else:
        pool.bias, pool.bias_target, pool.late_until = bias["bias"], bias.get("target"), bias.get("late_until", 0)
    cmap = {c.name: c for c in comps}
    problems = []
    fins = []

    def ob(kind, data):
        if kind == "finished":
            asg = {n: c.current_value for n, c in cmap.items()}
            bad = violated(case, asg, params["infinity"])
            fins.append(data)
            if bad:
                problems.append(("finished-on-violated-assignment",
                                 "%s finished (step %d) while constraints %s are violated; assignment %r" % (
                                     data, pool.steps, bad[:3], asg)))

    pool.observers.append(ob)
    for c in comps:
        pool.add(c)
    status = pool.run(6000)
    # A raising handler is not part of C09's statement: it only ends the observation window of this run
    # (reported in coverage as observation_ended_by_exception).
    return {"status": status, "exception": pool.errors[0][1] if pool.errors else None, "problems": problems, "finished": fins, "trace": list(pool.trace), "delivered": pool.delivered,
            "cycles": max([c.cycle_count for c in comps] or [0]),
            "bias": {"bias": pool.bias, "target": pool.bias_target, "late_until": pool.late_until}}


def worker(job):
    R = common.WorkerResult()
    seed = job["seed"]
    for i in range(job["lo"], job["hi"]):
        rng = common.rng_for(seed, "C09", i)
        infinity = rng.choice([10000, 10000, 1000])
        case = gen_csp(rng, infinity)
        diam = primal_diameter(case)
        assert diam is not None
        n = len(case["variables"])
        sat = any(not violated(case, a, infinity) for a in gen.assignments(case))
        csig = gen.case_sig(case)
        for s in range(job["nsched"]):
            md = rng.choice([diam, diam, diam + 1, n, 50]) or 1
            params = {"infinity": infinity, "max_distance": md}
            sseed = (seed * 1000003 + i * 101 + s) & 0x7FFFFFFF
            res = run_one(case, params, sseed)
            nontrivial = bool(res["finished"]) and diam >= 2
            R.case(common.stable_hash([csig, params, res["trace"]]), nontrivial,
                   sample={"case": case, "params": params, "diameter": diam, "satisfiable": sat, "bias": res["bias"],
                           "finished_order": res["finished"], "schedule_head": res["trace"][:30]} if nontrivial else None)
            R.count("finished_calls_checked", len(res["finished"]))
            R.count("runs_with_termination", 1 if res["finished"] else 0)
            R.count("messages_delivered", res["delivered"])
            R.bump("satisfiable", str(sat))
            R.bump("max_distance_kind", "diameter" if md == diam else ("diameter+1" if md == diam + 1 else str(md)))
            R.bump("status", res["status"])
            if res["exception"]:
                R.bump("observation_ended_by_exception", res["exception"][:70])
            if not sat and res["finished"]:
                res["problems"].append(("finished-on-unsatisfiable-csp", "DBA finished although the CSP has no solution"))
            for p in res["problems"]:
                R.violation("dba:%s" % p[0], p[1], {"case": case, "params": params, "sched_seed": sseed,
                                                    "bias": res["bias"], "choices": res["trace"]})
    return R


def main(chk, tier, seed):
    chk.rule = RULE
    chk.assumptions = ["connected constraint graphs (max_distance >= diameter is only defined there)", "per-channel FIFO delivery",
                       "runs end at quiescence or 6000 steps; not finishing is never a violation"]
    n = 900 if tier == "quick" else 24000
    common.run_chunked(chk, "c09", n, nchunks=16 if tier == "quick" else 64,
                       job_extra={"nsched": 3 if tier == "quick" else 5}, timeout=3000)
    chk.inconclusive_if(chk.counters.get("finished_calls_checked", 0) < 200, "too few finished() observed")


def replay(payload):
    w = payload["witness"]
    res = run_one(w["case"], w["params"], w["sched_seed"], bias=w["bias"], choices=list(w["choices"]))
    print("replay: status=%s problems=%s" % (res["status"], res["problems"][:3]))
    if res["problems"]:
        print("VIOLATION property=C09 replay=(replayed)")
        return 1
    return 0

"""C20 - discovery views converge to the directory for subscribed items (Engine A pool over real Directory/Discovery)."""
import random as _r

from pv import common, detsched

RULE = ("a real Directory on a directory-host Discovery plus 2-3 real Discovery instances whose Discovery/Directory "
        "computations exchange their real messages through the pool (any per-channel-FIFO delivery order); histories of "
        "up to 12 API operations (register/unregister agent, computation, replica; subscribe/unsubscribe agent, "
        "computation, replica with/without callbacks, one-shot or not; subscribe_all_agents) restricted to valid API use by "
        "a small reference model (agents hosting nothing and subscribed to nothing may leave and come back with a new address, a computation may be "
        "registered by another instance once its owner has unregistered it, even while that un-publication is in flight) "
        "and interleaved with deliveries at random; a quarter of the histories are scripted cores (replica subscription "
        "racing with a re-registration, migration with and without replicas, agent re-joining) with random deliveries; "
        "after a full drain: (1) the directory equals "
        "the ground truth obtained by folding the publish/unpublish messages in the order the directory handled them, "
        "(2) every instance's local view of each agent / computation / replica it is still subscribed to equals the "
        "directory's, (3) folding each callback's events gives the directory's final state for that item and one-shot "
        "callbacks fired at most once, (4) no handler raised; non-trivial = >= 2 instances involved, >= 1 unregistration "
        "and >= 1 subscription with callback; distinct by hash(history, schedule)")

AGENTS = ["a1", "a2", "a3"]
COMPS = ["c1", "c2", "c3"]


class World:
    def __init__(self, seed, nagents, choices=None):
        from pydcop.infrastructure.discovery import Discovery, Directory

        self.pool = detsched.Pool(seed, choices=choices)
        self.dir_disc = Discovery("dirhost", "addr_dirhost")
        self.directory = Directory(self.dir_disc)
        self.dir_disc.use_directory("dirhost", "addr_dirhost")
        self.pool.add(self.directory.directory_computation)
        self.pool.add(self.dir_disc.discovery_computation)
        self.disc = {}
        for a in AGENTS[:nagents]:
            d = Discovery(a, "addr_" + a)
            d.use_directory("dirhost", "addr_dirhost")
            self.disc[a] = d
            self.pool.add(d.discovery_computation)
        for n in list(self.pool.comps):
            self.pool.started.add(n)
            self.pool.comps[n].start()
        # ground truth folded from what the directory handles
        self.echo_mids = set()
        self.echoes_handled = 0
        self.truth_agents = {}
        self.truth_comps = {}
        self.truth_replicas = {}
        self.absent_at_sub = {}
        self.ever_agents = set()
        self.pool.observers.append(self._observe)
        self.events = []  # callback events (cbid, event, item, value)
        self.model_sub = {a: {"agent": {}, "computation": {}, "replica": {}} for a in self.disc}
        self.all_agents_sub = {}
        self.cb_count = 0
        self.cbs = {}
        self.phase = "main"
        self.left = set()
        self.owner = {}

    def _observe(self, kind, data):
        if kind == "send" and data[1] == "_directory" and self.pool.current == "_directory":
            # sent to the directory by the directory itself while it handles a message (its own Discovery instance
            # publishing what it has just been told): an echo, not an operation of a client; the ground truth is folded
            # from the clients' publications only
            self.echo_mids.add(data[4])
            return
        if kind == "deliver" and data[1] == "_directory":
            msg = data[2]
            t = msg.type
            if data[3] in self.echo_mids:
                self.echoes_handled += 1
                return
            if t == "subscribe_agent" and msg.subscribe:
                # was the agent absent from the directory when this subscription was handled ? (the directory then
                # answers nothing, and an address cached by the subscriber from an earlier subscription stays)
                sub = data[0]
                if msg.agent == "*":
                    self.absent_at_sub[(sub, "*")] = {x for x in self.ever_agents if x not in self.truth_agents}
                else:
                    self.absent_at_sub[(sub, msg.agent)] = msg.agent not in self.truth_agents
            if t == "publish_agent":
                self.truth_agents[msg.agents] = msg.address
                self.ever_agents.add(msg.agents)
            elif t == "unpublish_agent":
                if msg.agent in self.truth_agents:
                    self.truth_agents.pop(msg.agent)
                    for c in [c for c, a in self.truth_comps.items() if a == msg.agent]:
                        self.truth_comps.pop(c)
            elif t == "publish_computation":
                self.truth_comps[msg.computation] = msg.agent
            elif t == "unpublish_computation":
                # an un-publication by a former host, handled after the computation has been registered on another
                # agent (migration), must not remove the new registration
                if msg.agent is None or self.truth_comps.get(msg.computation) == msg.agent:
                    self.truth_comps.pop(msg.computation, None)
            elif t == "publish_replica":
                s = self.truth_replicas.setdefault(msg.replica, set())
                if msg.publish:
                    # replica holders are recorded independently of the registration of the computation itself (it may
                    # be momentarily unregistered while it migrates)
                    s.add(msg.agent)
                else:
                    s.discard(msg.agent)

    def make_cb(self, owner, kind, item, one_shot):
        self.cb_count += 1
        cid = "cb%d" % self.cb_count
        events = self.events

        def cb(evt, name, value, _cid=cid):
            events.append((_cid, evt, name, value))

        self.cbs[cid] = {"owner": owner, "kind": kind, "item": item, "one_shot": one_shot, "fn": cb}
        return cid, cb


def subs_of(w, a):
    m = w.model_sub[a]
    return set(m["computation"]) | set(m["replica"])


def enabled_ops(w, rng):
    """valid API operations given the local knowledge of each instance (reference model of valid use)"""
    ops = []
    for a, d in w.disc.items():
        own = [c for c, h in d._computations_data.items() if h == a and not c.startswith("_")]
        # agents register themselves first (done by run_history, as Agent._on_start does) and only leave at the end
        holds_replica = any(a in hs for hs in d._replicas_data.values())
        if w.phase == "end" and a in d._agents_data and not own and a not in w.left:
            ops.append(("unregister_agent", a))
        elif w.phase != "end" and a not in w.left and not own and not holds_replica and rng.random() < 0.3 \
                and not any(w.model_sub[a].values()) and a not in w.all_agents_sub:
            # an agent hosting nothing, and which has cancelled its subscriptions, may leave in the middle of the history ...
            ops.append(("unregister_agent", a))
        if a in w.left:
            if w.phase != "end":
                # ... and come back with a new address
                w.rejoin_count = getattr(w, "rejoin_count", 0)
                ops.append(("register_agent", a, "addr_%s_bis%d" % (a, w.rejoin_count)))
            continue
        for c in COMPS:
            host = d._computations_data.get(c)
            # each computation has one owner at a time: once the owner has unregistered it, another instance may
            # register it (migration) even while the un-publication is still in flight (an instance never subscribes
            # to a computation it registers itself: subscriptions are for computations hosted elsewhere)
            if host is None and w.owner.get(c, a) == a and c not in subs_of(w, a):
                ops.append(("register_computation", a, c))
            if host == a:
                ops.append(("unregister_computation", a, c))
            if c in d._computations_data:
                if a not in d._replicas_data.get(c, set()) and host != a:
                    ops.append(("register_replica", a, c))
                if a in d._replicas_data.get(c, set()):
                    ops.append(("unregister_replica", a, c))
        subs = w.model_sub[a]
        for b in AGENTS:
            if b != a:
                st = subs["agent"].get(b)
                ops.append(("subscribe_agent", a, b, rng.random() < 0.7, rng.random() < 0.3))
                if st is not None:
                    ops.append(("unsubscribe_agent", a, b, rng.choice([None] + list(st))))
        for c in COMPS:
            st = subs["computation"].get(c)
            if w.owner.get(c) != a and d._computations_data.get(c) != a:
                ops.append(("subscribe_computation", a, c, rng.random() < 0.7, rng.random() < 0.3))
                if st is not None:
                    ops.append(("unsubscribe_computation", a, c, rng.choice([None] + list(st))))
            st = subs["replica"].get(c)
            if c in d._computations_data:  # only replicas of computations the instance already knows
                ops.append(("subscribe_replica", a, c, rng.random() < 0.7, rng.random() < 0.3))
            if st is not None:
                ops.append(("unsubscribe_replica", a, c, rng.choice([None] + list(st))))
        if a not in w.all_agents_sub:
            ops.append(("subscribe_all_agents", a, rng.random() < 0.7))
    return ops


def apply_op(w, op):
    kind = op[0]
    a = op[1] if len(op) > 1 else None
    d = w.disc[a] if kind != "drain" else None
    subs = w.model_sub[a] if kind != "drain" else None

    def run(fn):
        return w.pool.call(d.discovery_computation.name, fn)

    if kind == "drain":
        w.pool.run(w.pool.steps + 5000)
        return True
    if kind == "register_agent":
        addr = op[2] if len(op) > 2 else "addr_" + a
        run(lambda: d.register_agent(a, addr))
        if a in w.left:
            w.left.discard(a)
            w.rejoin_count = getattr(w, "rejoin_count", 0) + 1
    elif kind == "unregister_agent":
        run(lambda: d.unregister_agent(a))
        w.left.add(a)
        for what in subs:
            subs[what].clear()
        w.all_agents_sub.pop(a, None)
    elif kind == "register_computation":
        run(lambda: d.register_computation(op[2], a, d._agents_data.get(a, "addr_" + a)))
        w.owner[op[2]] = a
    elif kind == "unregister_computation":
        run(lambda: d.unregister_computation(op[2], a))
        subs["computation"].pop(op[2], None)  # unregister_computation(publish) unsubscribes the host
        if w.owner.get(op[2]) == a:
            w.owner.pop(op[2])
    elif kind == "register_replica":
        run(lambda: d.register_replica(op[2], a))
    elif kind == "unregister_replica":
        run(lambda: d.unregister_replica(op[2], a))
    elif kind in ("subscribe_agent", "subscribe_computation", "subscribe_replica"):
        what = kind.split("_")[1]
        item, with_cb, one_shot = op[2], op[3], op[4]
        st = subs[what].get(item)
        if st is not None and (not st) != (not with_cb):
            return False  # do not mix callback and callback-less subscriptions on one item
        fn = getattr(d, kind)
        if with_cb:
            cid, cb = w.make_cb(a, what, item, one_shot)
            run(lambda: fn(item, cb, one_shot))
            subs[what].setdefault(item, []).append(cid)
        else:
            run(lambda: fn(item))
            subs[what].setdefault(item, [])
    elif kind in ("unsubscribe_agent", "unsubscribe_computation", "unsubscribe_replica"):
        what = kind.split("_")[1]
        item, cid = op[2], op[3]
        fn = getattr(d, kind)
        st = subs[what].get(item)
        if st is None:
            return False
        if isinstance(cid, str) and cid.startswith("@"):
            k = int(cid[1:])
            if k >= len(st):
                return False
            cid = st[k]
        # one-shot callbacks that already fired have been dropped by the discovery itself
        for c in [c for c in st if w.cbs[c]["one_shot"] and any(e[0] == c for e in w.events)]:
            st.remove(c)
        if cid is None:
            run(lambda: fn(item))
            subs[what].pop(item, None)
        else:
            if cid not in st:
                return False
            cbfn = w.cbs[cid]["fn"]
            run(lambda: fn(item, cbfn))
            st.remove(cid)
            if not st:
                # no callback left: the discovery cancels the subscription at the directory
                subs[what].pop(item, None)
    elif kind == "subscribe_all_agents":
        if op[2]:
            cid, cb = w.make_cb(a, "all_agents", "*", False)
            run(lambda: d.subscribe_all_agents(cb))
            w.all_agents_sub[a] = cid
        else:
            run(lambda: d.subscribe_all_agents())
            w.all_agents_sub[a] = None
    return True


def run_history(seed, nagents, nops, choices=None, ops_script=None):
    rng = _r.Random(seed)
    w = World(seed, nagents, choices=None)
    script = []
    done = 0
    guard = 0
    for a in list(w.disc):
        apply_op(w, ("register_agent", a))
        script.append(["register_agent", a])
    while done < nops and guard < 400:
        guard += 1
        if done >= nops - 2 and rng.random() < 0.5:
            w.phase = "end"
        # interleave deliveries
        for _ in range(rng.randint(0, 3)):
            if not w.pool.step():
                break
        if ops_script is not None:
            if done >= len(ops_script):
                break
            op = tuple(ops_script[done])
        else:
            ops = enabled_ops(w, rng)
            if not ops:
                break  # every instance has left
            op = rng.choice(ops)
        n_err = len(w.pool.errors)
        ok = apply_op(w, op)
        if ok is False:
            if ops_script is not None:
                done += 1
            continue
        script.append(list(op))
        done += 1
        if w.pool.errors:
            break
    # drain
    w.pool.run(w.pool.steps + 5000)
    return w, script


def skeleton(rng):
    """scripted cores of histories that random generation reaches too rarely (each op is valid use; deliveries between
    the ops are random, ("drain",) forces quiescence): subscriptions racing with an owner change / re-registration"""
    a, b, c3 = rng.sample(AGENTS, 3)
    c = rng.choice(COMPS)
    cb, one = rng.random() < 0.7, False
    kind = rng.choice(["replica-sub-during-reregistration", "migration", "agent-rejoins", "migration-with-replicas",
                       "several-callbacks-on-one-item", "replica-dropped-then-held-again", "replica-dropped-while-computation-migrates"])
    if kind == "replica-dropped-while-computation-migrates":
        # a repair: the host of c has left (c unregistered), a candidate drops its replica of c while c is registered nowhere,
        # then the new host registers c; a third instance watches the replicas of c
        ops = [("register_computation", a, c), ("subscribe_computation", b, c, False, False), ("subscribe_computation", c3, c, False, False),
               ("drain",), ("register_replica", b, c), ("subscribe_replica", c3, c, cb, one), ("drain",),
               ("unregister_computation", a, c)]
        if rng.random() < 0.6:
            ops.append(("drain",))
        ops.append(("unregister_replica", b, c))
        if rng.random() < 0.6:
            ops.append(("drain",))
        ops += [("register_computation", rng.choice([a, c3]), c), ("drain",)]
        return kind, [list(o) for o in ops]
    if kind == "replica-dropped-then-held-again":
        # what a repair does: a candidate drops its replica of the migrating computation, the new host then replicates it
        # again, possibly on the same agent; deliveries in between are random
        ops = [("register_computation", a, c), ("subscribe_computation", b, c, False, False), ("drain",), ("register_replica", b, c)]
        if rng.random() < 0.5:
            ops.append(("subscribe_replica", c3, c, cb, one))
        ops += [("drain",), ("unregister_replica", b, c)]
        ops += [("register_replica", b, c), ("drain",)]
        return kind, [list(o) for o in ops]
    if kind == "several-callbacks-on-one-item":
        # two or three callbacks on the same agent / computation / replica set, one of them cancelled, then a change
        what = rng.choice(["replica", "computation", "agent"])
        n = rng.randint(2, 3)
        if what == "replica":
            ops = [("register_computation", a, c), ("subscribe_computation", b, c, False, False), ("subscribe_computation", c3, c, False, False), ("drain",),
                   ("register_replica", c3, c)]
            if rng.random() < 0.7:
                ops.append(("drain",))
            ops += [("subscribe_replica", b, c, True, False) for _ in range(n)]
            if rng.random() < 0.5:
                ops.append(("drain",))
            ops += [("unsubscribe_replica", b, c, "@%d" % rng.randrange(n)), ("drain",)]
            if rng.random() < 0.6:
                ops += [("unregister_replica", c3, c), ("drain",)]
        elif what == "computation":
            ops = [("register_computation", a, c)] + [("subscribe_computation", b, c, True, False) for _ in range(n)]
            if rng.random() < 0.5:
                ops.append(("drain",))
            ops += [("unsubscribe_computation", b, c, "@%d" % rng.randrange(n)), ("drain",), ("unregister_computation", a, c), ("drain",)]
        else:
            ops = [("subscribe_agent", a, b, True, False) for _ in range(n)]
            if rng.random() < 0.5:
                ops.append(("drain",))
            ops += [("unsubscribe_agent", a, b, "@%d" % rng.randrange(n)), ("drain",)]
        return kind, [list(o) for o in ops]
    if kind == "replica-sub-during-reregistration":
        ops = [("register_computation", a, c), ("subscribe_computation", b, c, False, False), ("subscribe_computation", c3, c, False, False),
               ("drain",), ("unregister_computation", a, c), ("subscribe_replica", b, c, cb, one), ("register_computation", a, c)]
        if rng.random() < 0.5:
            ops.insert(5, ops.pop(6))  # re-registration requested before the replica subscription
        ops += [("drain",), ("register_replica", c3, c), ("drain",)]
    elif kind == "migration":
        ops = [("register_computation", a, c), ("subscribe_computation", b, c, cb, one)]
        if rng.random() < 0.5:
            ops.append(("drain",))
        ops += [("unregister_computation", a, c), ("register_computation", c3, c), ("drain",)]
        if rng.random() < 0.5:
            ops += [("unregister_computation", c3, c), ("register_computation", a, c), ("drain",)]
    elif kind == "migration-with-replicas":
        ops = [("register_computation", a, c), ("subscribe_computation", b, c, False, False), ("drain",), ("register_replica", b, c),
               ("subscribe_replica", b, c, cb, one), ("unregister_computation", a, c), ("register_computation", c3, c), ("drain",)]
    else:
        ops = [("subscribe_agent", a, b, cb, one)]
        if rng.random() < 0.5:
            ops.append(("subscribe_all_agents", c3, rng.random() < 0.5))
        if rng.random() < 0.5:
            ops.append(("drain",))
        if rng.random() < 0.35:
            # the agent simply registers again with another address (it moved), without unregistering first
            ops += [("register_agent", b, "addr_%s_moved" % b), ("drain",)]
        else:
            ops += [("unregister_agent", b), ("register_agent", b, "addr_%s_bis" % b), ("drain",)]
        if rng.random() < 0.4:
            ops += [("unregister_agent", b), ("register_agent", b, "addr_%s_ter" % b), ("drain",)]
    return kind, [list(o) for o in ops]


def check_world(w, script):
    from pydcop.infrastructure.discovery import UnknownAgent, UnknownComputation

    P = []
    if w.pool.errors:
        e = w.pool.errors[0]
        key = "exception-in-api-call" if str(e[0]).startswith("call:") else "exception-in-message-handler"
        P.append((key + ":" + e[1].split(":")[0], "%s raised %s" % (e[0], e[1])))
        return P
    D = w.directory
    # (1) directory == ground truth
    dag = {k: v for k, v in D._agents_data.items() if k != "dirhost"}
    if dag != w.truth_agents:
        P.append(("directory:agents-differ-from-handled-messages", "directory agents %r, folded publish messages %r" % (dag, w.truth_agents)))
    dco = {k: v for k, v in D._computations_data.items() if not k.startswith("_")}
    if dco != w.truth_comps:
        P.append(("directory:computations-differ-from-handled-messages", "directory computations %r, folded messages %r" % (dco, w.truth_comps)))
    for c, agts in w.truth_replicas.items():
        if c in w.truth_comps:
            try:
                got = w.dir_disc.replica_agents(c)
            except Exception as e:
                got = "raised %s" % type(e).__name__
            if got != agts:
                P.append(("directory:replicas-differ-from-handled-messages", "directory replicas of %s: %r, folded messages %r" % (c, got, agts)))
    # (2) local views of subscribed items
    for a, d in w.disc.items():
        subs = w.model_sub[a]
        for b in subs["agent"]:
            want = w.truth_agents.get(b)
            try:
                got = d.agent_address(b)
            except UnknownAgent:
                got = None
            if got != want:
                key = "view:agent"
                if want is None and got is not None and w.absent_at_sub.get(("_discovery_" + a, b)) is True:
                    # known protocol limitation, see KNOWN_FINDINGS.json
                    key = "view:stale-address-of-agent-already-unregistered-when-the-subscription-was-handled"
                P.append((key, "%s is subscribed to agent %s: local address %r, directory %r" % (a, b, got, want)))
        if a in w.all_agents_sub:
            for b in AGENTS:
                want = w.truth_agents.get(b)
                try:
                    got = d.agent_address(b)
                except UnknownAgent:
                    got = None
                if b != a and got != want:
                    key = "view:all-agents"
                    if want is None and got is not None and b in (w.absent_at_sub.get(("_discovery_" + a, "*")) or ()):
                        key = "view:stale-address-of-agent-already-unregistered-when-the-subscription-was-handled"
                    P.append((key, "%s subscribed to all agents: local address of %s %r, directory %r" % (a, b, got, want)))
        for c in subs["computation"]:
            want = w.truth_comps.get(c)
            try:
                got = d.computation_agent(c)
            except UnknownComputation:
                got = None
            if got != want:
                key = "view:computation"
                if want is None and got is not None and any(op[0] == "unsubscribe_computation" and len(op) > 2 and op[1] == a and op[2] == c for op in script):
                    # known protocol limitation, see KNOWN_FINDINGS.json
                    key = "view:stale-host-after-unsubscribe-then-resubscribe-to-unregistered-computation"
                P.append((key, "%s is subscribed to computation %s: local host %r, directory %r" % (a, c, got, want)))
        for c in subs["replica"]:
            if c not in w.truth_comps:
                continue
            want = w.truth_replicas.get(c, set())
            try:
                got = d.replica_agents(c)
            except UnknownComputation:
                got = "unknown-computation"
            if got != want and got != "unknown-computation":
                key = "view:replica"
                if set(got) > set(want) and any(op[0] == "unsubscribe_replica" and op[1] == a and op[2] == c for op in script):
                    # known protocol limitation (the replica twin of the stale host finding), see KNOWN_FINDINGS.json
                    key = "view:stale-replica-holder-after-unsubscribe-then-resubscribe"
                P.append((key, "%s is subscribed to replicas of %s: local %r, directory %r" % (a, c, got, want)))
    # (3) callbacks: fold events
    for cid, info in w.cbs.items():
        evs = [e for e in w.events if e[0] == cid]
        if info["one_shot"] and len([e for e in evs if e[1].endswith("added")]) > 1:
            P.append(("callback:one-shot-fired-twice", "one-shot callback %s on %s %s fired %d times" % (cid, info["kind"], info["item"], len(evs))))
        subs = w.model_sub[info["owner"]][info["kind"]] if info["kind"] != "all_agents" else None
        still = subs is not None and cid in subs.get(info["item"], [])
        if not still or info["one_shot"]:
            continue
        if info["kind"] == "computation":
            want = w.truth_comps.get(info["item"])
            state = None
            for e in evs:
                state = e[3] if e[1] == "computation_added" else None
            if state != want and not (want is not None and not evs and w.disc[info["owner"]]._computations_data.get(info["item"]) == want):
                key = "callback:computation-events-do-not-fold-to-directory-state"
                if want is None and state is not None and any(
                        op[0] == "unsubscribe_computation" and len(op) > 2 and op[1] == info["owner"] and op[2] == info["item"] for op in script):
                    # same mechanism as the stale view (known protocol limitation, see KNOWN_FINDINGS.json)
                    key = "view:stale-host-after-unsubscribe-then-resubscribe-to-unregistered-computation"
                P.append((key,
                          "callback %s of %s on computation %s saw %r -> %r, directory says %r" % (cid, info["owner"], info["item"], [e[1:] for e in evs], state, want)))
        elif info["kind"] == "agent":
            want = w.truth_agents.get(info["item"])
            state = None
            for e in evs:
                state = e[3] if e[1] == "agent_added" else None
            if state != want and not (want is not None and not evs and w.disc[info["owner"]]._agents_data.get(info["item"]) == want):
                key = "callback:agent-events-do-not-fold-to-directory-state"
                if want is None and w.absent_at_sub.get(("_discovery_" + info["owner"], info["item"])) is True:
                    key = "view:stale-address-of-agent-already-unregistered-when-the-subscription-was-handled"
                P.append((key,
                          "callback %s of %s on agent %s saw %r -> %r, directory says %r" % (cid, info["owner"], info["item"], [e[1:] for e in evs], state, want)))
        elif info["kind"] == "replica" and info["item"] in w.truth_comps:
            want = w.truth_replicas.get(info["item"], set())
            state = set()
            for e in evs:
                if e[1] == "replica_added":
                    state.add(e[3])
                elif e[1] == "replica_removed":
                    state.discard(e[3])
            known_before = set()
            if state != want:
                # replicas already known locally when the callback was registered do not fire
                local = w.disc[info["owner"]]._replicas_data.get(info["item"], set())
                if not (local == want):
                    P.append(("callback:replica-events-do-not-fold-to-directory-state",
                              "callback %s of %s on replicas of %s folds to %r, directory says %r" % (cid, info["owner"], info["item"], state, want)))
    return P


def worker(job):
    R = common.WorkerResult()
    seed = job["seed"]
    for i in range(job["lo"], job["hi"]):
        rng = common.rng_for(seed, "C20", i)
        nagents = rng.randint(2, 3)
        nops = rng.randint(3, 12)
        hseed = (seed * 1000003 + i * 7) & 0x7FFFFFFF
        skel = None
        if i % 4 == 3:
            skel, ops_script = skeleton(rng)
            nagents = 3
        try:
            if skel:
                w, script = run_history(hseed, 3, len(ops_script), ops_script=ops_script)
            else:
                w, script = run_history(hseed, nagents, nops)
            P = check_world(w, script)
        except Exception as e:
            import traceback

            R.bump("harness_errors", "%s: %s" % (type(e).__name__, str(e)[:80]))
            R.violation("harness:exception", traceback.format_exc()[-800:], {"seed": hseed})
            continue
        kinds = {op[0] for op in script}
        nontrivial = len({op[1] for op in script if len(op) > 1}) >= 2 and any(k.startswith("unregister") for k in kinds) and bool(w.cbs)
        R.case(common.stable_hash([script, w.pool.trace]), nontrivial,
               sample={"agents": nagents, "history": script, "deliveries": w.pool.delivered} if nontrivial and i % 60 == 0 else None)
        R.bump("history_kinds", skel or "random")
        R.count("api_operations", len(script))
        R.count("discovery_messages_delivered", w.pool.delivered)
        R.count("callbacks_registered", len(w.cbs))
        R.count("callback_events", len(w.events))
        for op in script:
            R.bump("operations", op[0])
        seen = set()
        for k, m in P:
            if k in seen:
                continue
            seen.add(k)
            R.violation(k, m, {"seed": hseed, "agents": nagents, "nops": nops, "history": script, "scripted": ops_script if skel else None})
    return R


def main(chk, tier, seed):
    chk.rule = RULE
    chk.assumptions = ["valid API use per the reference model in enabled_ops() (own computations only, replicas of known computations, "
                       "no mix of callback and callback-less subscriptions on one item)",
                       "per-channel FIFO delivery (single discovery priority)"]
    n = 6000 if tier == "quick" else 300000
    common.run_chunked(chk, "c20", n, nchunks=16 if tier == "quick" else 64, timeout=3000)
    chk.inconclusive_if(chk.counters.get("callback_events", 0) < 200, "too few callback events")


def replay(payload):
    w_ = payload["witness"]
    if w_.get("scripted"):
        w, script = run_history(w_["seed"], 3, len(w_["scripted"]), ops_script=w_["scripted"])
    else:
        w, script = run_history(w_["seed"], w_["agents"], w_["nops"])
    P = check_world(w, script)
    print("replay:", P[:3])
    if P:
        print("VIOLATION property=C20 replay=(replayed)")
        return 1
    return 0

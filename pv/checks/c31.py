"""C31 - agent definitions honour their cost model, also when mass-created (Engine C)."""
import itertools

from pv import common

RULE = ("generated AgentDefs (routes, default route, hosting tables, default hosting cost, extra attributes; every "
        "argument optionally omitted) queried on all agent / computation names incl. self and unknown ones against a "
        "dict-based model; create_agents with list, range and tuple-of-lists indexes compared accessor by accessor with "
        "individually built AgentDef(name, same arguments), incl. extra_attr(); non-trivial = >= 1 specific route or "
        "hosting cost and a non-default default; distinct by hash(arguments)")

AGENTS = ["a1", "a2", "a3", "a_x", "zz"]
COMPS = ["c1", "c2", "v3", "f_1"]


def draw_kwargs(rng):
    kw = {}
    if rng.random() < 0.7:
        kw["default_route"] = rng.choice([0, 1, 2.5, 10])
    if rng.random() < 0.7:
        kw["routes"] = {a: rng.choice([0, 3, 7.5]) for a in AGENTS if rng.random() < 0.5}
    if rng.random() < 0.7:
        kw["default_hosting_cost"] = rng.choice([0, 4, 0.5, 100])
    if rng.random() < 0.7:
        kw["hosting_costs"] = {c: rng.choice([0, 1, 9.5]) for c in COMPS if rng.random() < 0.5}
    extra = {k: rng.choice([1, 42, "x", 2.5, [1, 2], {"k": 1}]) for k in ("capacity", "preference", "foo_bar") if rng.random() < 0.5}
    return kw, extra


def model_checks(agent, name, kw, extra, where, others=()):
    P = []
    dr = kw.get("default_route", 1)
    routes = kw.get("routes") or {}
    dh = kw.get("default_hosting_cost", 0)
    hc = kw.get("hosting_costs") or {}
    if agent.name != name:
        P.append(("%s:name" % where, "name %r != %r" % (agent.name, name)))
    for a in AGENTS + [name, "unknown_agent"] + [o for o in others if o != name]:
        want = 0 if a == name else routes.get(a, dr)
        try:
            got = agent.route(a)
        except Exception as e:
            P.append(("%s:route:exception" % where, "route(%s) raised %s" % (a, e)))
            continue
        if got != want:
            P.append(("%s:route" % where, "%s.route(%s) == %r, expected %r (args %r)" % (name, a, got, want, kw)))
    for c in COMPS + ["unknown_comp"]:
        want = hc.get(c, dh)
        got = agent.hosting_cost(c)
        if got != want:
            P.append(("%s:hosting_cost" % where, "%s.hosting_cost(%s) == %r, expected %r (args %r)" % (name, c, got, want, kw)))
    if agent.default_route != dr:
        P.append(("%s:default_route" % where, "%r != %r" % (agent.default_route, dr)))
    if agent.default_hosting_cost != dh:
        P.append(("%s:default_hosting_cost" % where, "default_hosting_cost %r != %r (args %r)" % (agent.default_hosting_cost, dh, kw)))
    for k, v in extra.items():
        try:
            got = getattr(agent, k)
        except AttributeError:
            P.append(("%s:extra-attribute-missing" % where, "%s has no attribute %s" % (name, k)))
            continue
        if got != v:
            P.append(("%s:extra-attribute" % where, "%s.%s == %r, expected %r" % (name, k, got, v)))
    try:
        ea = agent.extra_attr()
        if ea != extra:
            P.append(("%s:extra_attr" % where, "%s.extra_attr() == %r, expected %r" % (name, ea, extra)))
    except Exception as e:
        P.append(("%s:extra_attr:exception" % where, str(e)))
    try:
        getattr(agent, "surely_not_an_attribute")
        P.append(("%s:unknown-attribute-readable" % where, "unknown attribute did not raise"))
    except AttributeError:
        pass
    return P


def check(rng, R):
    from pydcop.dcop.objects import AgentDef, create_agents

    P = []
    kw, extra = draw_kwargs(rng)
    name = rng.choice(AGENTS)
    args = dict(kw)
    args.update(extra)
    a = AgentDef(name, **args)
    P += model_checks(a, name, kw, extra, "AgentDef")
    R.count("agentdefs_checked")
    # mass creation
    form = rng.choice(["list", "range", "tuple", "list_int"])
    prefix = rng.choice(["a", "agt_", "x"])
    sep = rng.choice(["_", "-", ""])
    ckw = {}
    if "default_route" in kw:
        ckw["default_route"] = kw["default_route"]
    if "routes" in kw:
        ckw["routes"] = dict(kw["routes"])
    if "default_hosting_cost" in kw:
        ckw["default_hosting_costs"] = kw["default_hosting_cost"]  # create_agents' own spelling
    if "hosting_costs" in kw:
        ckw["hosting_costs"] = dict(kw["hosting_costs"])
    if form == "list":
        idx = rng.sample(["1", "2", "3", "b", "10"], rng.randint(1, 3))
        names = {prefix + i: prefix + i for i in idx}
    elif form == "list_int":
        idx = rng.sample([1, 2, 3, 10], rng.randint(1, 3))
        names = {prefix + str(i): prefix + str(i) for i in idx}
    elif form == "range":
        stop = rng.choice([2, 5, 11, 12])
        idx = range(rng.choice([0, 1]), stop)
        w = len(str(stop - 1))
        names = {"%s%0*d" % (prefix, w, i): "%s%0*d" % (prefix, w, i) for i in idx}
    else:
        l1 = rng.sample(["1", "2", "x"], rng.randint(1, 2))
        l2 = rng.sample(["a", "b", "c"], rng.randint(1, 2))
        idx = (l1, l2)
        names = {tuple(c): prefix + sep.join(c) for c in itertools.product(l1, l2)}
        ckw["separator"] = sep
    siblings = sorted(set(names.values()))
    if "routes" in ckw and len(siblings) >= 2 and rng.random() < 0.7:
        # the route table also names some of the agents created by the same call
        kw = dict(kw)
        kw["routes"] = dict(kw["routes"])
        for sname in rng.sample(siblings, rng.randint(1, len(siblings))):
            kw["routes"][sname] = rng.choice([0, 3, 5, 7.5])
        ckw["routes"] = dict(kw["routes"])
    W = {"form": form, "prefix": prefix, "indexes": repr(idx), "kwargs": ckw, "extra": extra}
    try:
        created = create_agents(prefix, idx, **ckw, **extra)
    except Exception as e:
        P.append(("create_agents:exception:%s" % type(e).__name__, "create_agents(%r, %r, %r) raised %s" % (prefix, idx, ckw, e)))
        return P, W
    R.count("create_agents_calls_checked")
    if sorted(map(repr, created)) != sorted(map(repr, names)):
        P.append(("create_agents:keys", "create_agents keys %r, expected %r" % (sorted(map(repr, created)), sorted(map(repr, names)))))
        return P, W
    for key, nm in names.items():
        P += model_checks(created[key], nm, kw, extra, "create_agents", others=siblings)
    return P, W


def worker(job):
    R = common.WorkerResult()
    seed = job["seed"]
    for i in range(job["lo"], job["hi"]):
        rng = common.rng_for(seed, "C31", i)
        P, W = check(rng, R)
        nontrivial = bool(W["kwargs"].get("routes") or W["kwargs"].get("hosting_costs")) and \
            (W["kwargs"].get("default_route", 1) != 1 or W["kwargs"].get("default_hosting_costs", 0) != 0)
        R.case(common.stable_hash(W), nontrivial, sample=W if nontrivial and i % 50 == 0 else None)
        R.bump("index_kinds", W["form"])
        seen = set()
        for k, m in P:
            if k in seen:
                continue
            seen.add(k)
            R.violation(k, m, W)
    return R


def main(chk, tier, seed):
    chk.rule = RULE
    n = 15000 if tier == "quick" else 500000
    common.run_chunked(chk, "c31", n, nchunks=16 if tier == "quick" else 64, timeout=3000)
    chk.inconclusive_if(len(chk.extra.get("index_kinds", {})) < 4, "not all index kinds exercised")


def replay(payload):
    print("witness:", payload["witness"], "->", payload["what"])
    print("VIOLATION property=C31 replay=(recorded witness)")
    return 1

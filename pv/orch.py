"""Engine B: orchestrated runs of the real thread-mode runtime (Orchestrator + OrchestratedAgents), with
schedule perturbation and an optional callback monitor (thread identity / overlap recording)."""
import functools
import logging
import random as _r
import threading
import time

from pv import gen, threaded


def footprint_funcs(seed):
    """harness-owned footprint / load functions (DPOP's own raise NotImplementedError)"""
    rr = _r.Random(seed)
    mem, load = {}, {}

    def computation_memory(node):
        if node.name not in mem:
            mem[node.name] = rr.choice([1, 2, 3])
        return mem[node.name]

    def communication_load(node, target):
        key = tuple(sorted((node.name, target)))
        if key not in load:
            load[key] = rr.choice([1, 2, 5])
        return load[key]

    return computation_memory, communication_load


def make_distribution(kind, cg, agents, rng, seed):
    from importlib import import_module
    from pydcop.distribution.objects import Distribution

    names = [n.name for n in cg.nodes]
    if kind == "random":
        mapping = {a.name: [] for a in agents}
        for n in names:
            mapping[rng.choice(agents).name].append(n)
        return Distribution(mapping)
    mod = import_module("pydcop.distribution." + kind)
    cm, cl = footprint_funcs(seed)
    return mod.distribute(cg, agents, computation_memory=cm, communication_load=cl)


class CallbackMonitor:
    """records (agent, computation, kind, thread, enter, exit) for computation callbacks; all state under one lock"""

    def __init__(self):
        self.clock = threaded.Clock()
        self.records = []          # dicts
        self.lock = threading.Lock()
        self.tls = threading.local()
        self.agent_threads = {}    # agent name -> Thread object
        self.comp_agent = {}       # id(computation) -> agent name
        self._undo = []
        self.ignored_subscriptions = 0

    # -- recording
    def _enter(self, agent, comp, kind):
        t = self.clock.rec("enter", agent, comp, kind, threading.current_thread().name)
        rec = {"agent": agent, "comp": comp, "kind": kind, "thread": threading.current_thread().name,
               "on_agent_thread": threading.current_thread() is self.agent_threads.get(agent), "enter": t, "exit": None}
        with self.lock:
            self.records.append(rec)
        stack = getattr(self.tls, "stack", None)
        if stack is None:
            stack = self.tls.stack = []
        stack.append((agent, comp))
        return rec

    def _exit(self, rec):
        rec["exit"] = self.clock.rec("exit", rec["agent"], rec["comp"], rec["kind"])
        self.tls.stack.pop()

    def wrap(self, fn, agent, comp, kind, jitter=None):
        mon = self

        @functools.wraps(fn)
        def wrapper(*a, **k):
            rec = mon._enter(agent, comp, kind)
            try:
                if jitter is not None:
                    jitter()
                return fn(*a, **k)
            finally:
                mon._exit(rec)

        wrapper._pv_wrapped = fn
        return wrapper

    def wrap_handlers(self, computation, agent, cname):
        """the message handlers themselves (registered in _msg_handlers, declared with @register, or reached by the
        orchestrator's indirect-call convention _orchestrator_*), so that a handler called directly, without going through
        on_message, is seen too; nested inside the on_message record when dispatched normally"""
        names = set()
        for h in list(getattr(computation, "_msg_handlers", {}).values()):
            if getattr(h, "__self__", None) is computation and hasattr(h, "__name__"):
                names.add(h.__name__)
        for h in getattr(type(computation), "_decorated_handlers", {}).values():
            if hasattr(h, "__name__"):
                names.add(h.__name__)
        names.update(n for n in dir(type(computation)) if n.startswith("_orchestrator_"))
        for n in sorted(names):
            orig = getattr(computation, n, None)
            if orig is None or not callable(orig) or hasattr(orig, "_pv_wrapped"):
                continue
            w = self.wrap(orig, agent, cname, "handler")
            try:
                setattr(computation, n, w)
            except AttributeError:
                continue
            for t, h in list(computation._msg_handlers.items()):
                if getattr(h, "__self__", None) is computation and getattr(h, "__name__", None) == n:
                    computation._msg_handlers[t] = w
            self.handlers_wrapped = getattr(self, "handlers_wrapped", 0) + 1

    # -- installation (class-level seams; undone by uninstall)
    def install(self, jitter=None):
        from pydcop.infrastructure import agents as agents_mod, discovery as disc_mod
        from pydcop.infrastructure.computations import MessagePassingComputation

        mon = self
        Agent = agents_mod.Agent
        orig_init = Agent.__init__
        orig_add = Agent.add_computation
        orig_periodic = Agent.set_periodic_action

        def agent_init(self, name, *a, **k):
            orig_init(self, name, *a, **k)
            mon.agent_threads[name] = self.t
            # the discovery computation is put into the agent's table directly (Agent._on_start), not through add_computation
            dc = self.discovery.discovery_computation
            if not getattr(dc, "_pv_monitored", False):
                dc._pv_monitored = True
                mon.comp_agent[id(dc)] = name
                for meth, kind in (("start", "start"), ("on_message", "message"), ("pause", "pause")):
                    setattr(dc, meth, mon.wrap(getattr(dc, meth), name, dc.name, kind, jitter))
                mon.wrap_handlers(dc, name, dc.name)

        def add_computation(self, computation, comp_name=None, publish=True):
            cname = computation.name if comp_name is None else comp_name
            if not getattr(computation, "_pv_monitored", False):
                computation._pv_monitored = True
                mon.comp_agent[id(computation)] = self.name
                for meth, kind in (("start", "start"), ("on_message", "message"), ("pause", "pause")):
                    setattr(computation, meth, mon.wrap(getattr(computation, meth), self.name, cname, kind, jitter))
                mon.wrap_handlers(computation, self.name, cname)
            return orig_add(self, computation, comp_name, publish)

        def set_periodic_action(self, period, cb):
            owner = getattr(cb, "__self__", None)
            cname = getattr(owner, "name", None) or "agent:" + self.name
            return orig_periodic(self, period, mon.wrap(cb, self.name, cname, "periodic", jitter))

        Agent.__init__ = agent_init
        Agent.add_computation = add_computation
        Agent.set_periodic_action = set_periodic_action
        self._undo += [(Agent, "__init__", orig_init), (Agent, "add_computation", orig_add), (Agent, "set_periodic_action", orig_periodic)]
        # resilient agent overrides add_computation and calls super(): nothing more to wrap
        Discovery = disc_mod.Discovery
        wrapped_cbs = {}

        def sub_wrapper(name, cb_pos):
            orig = getattr(Discovery, name)

            def sub(self, *a, **k):
                a = list(a)
                cb = k.get("cb") if "cb" in k else (a[cb_pos] if len(a) > cb_pos else None)
                if cb is not None:
                    owner = getattr(cb, "__self__", None)
                    stack = getattr(mon.tls, "stack", None)
                    who = None
                    if isinstance(owner, MessagePassingComputation) and id(owner) in mon.comp_agent:
                        who = (mon.comp_agent[id(owner)], owner.name)
                    elif stack:
                        who = stack[-1]
                    if who is None:
                        mon.ignored_subscriptions += 1
                    else:
                        key = (id(self), name.replace("subscribe_", ""), cb)
                        w = wrapped_cbs.get(key)
                        if w is None:
                            w = wrapped_cbs[key] = mon.wrap(cb, who[0], who[1], "discovery_cb", jitter)
                        if "cb" in k:
                            k["cb"] = w
                        else:
                            a[cb_pos] = w
                return orig(self, *a, **k)

            setattr(Discovery, name, sub)
            mon._undo.append((Discovery, name, orig))

        def unsub_wrapper(name, cb_pos):
            orig = getattr(Discovery, name)

            def unsub(self, *a, **k):
                a = list(a)
                cb = k.get("cb") if "cb" in k else (a[cb_pos] if len(a) > cb_pos else None)
                if cb is not None:
                    w = wrapped_cbs.get((id(self), name.replace("unsubscribe_", ""), cb))
                    if w is not None:
                        if "cb" in k:
                            k["cb"] = w
                        else:
                            a[cb_pos] = w
                return orig(self, *a, **k)

            setattr(Discovery, name, unsub)
            mon._undo.append((Discovery, name, orig))

        import inspect

        for what in ("agent", "computation", "replica", "all_agents"):
            for pre, wr in (("subscribe_", sub_wrapper), ("unsubscribe_", unsub_wrapper)):
                name = pre + what
                fn = getattr(Discovery, name, None)
                if fn is None:
                    continue
                params = list(inspect.signature(fn).parameters)
                if "cb" in params:
                    wr(name, params.index("cb") - 1)

    def uninstall(self):
        for obj, name, orig in reversed(self._undo):
            setattr(obj, name, orig)
        self._undo = []


def build_problem(case, algo, params, nagents, replication_capacity=1000, cost_style="dict"):
    from importlib import import_module
    from pydcop.algorithms import AlgorithmDef, load_algorithm_module
    from pydcop.dcop.objects import AgentDef

    dcop = gen.build_dcop(case, cost_style)
    agents = [AgentDef("a%d" % i, capacity=replication_capacity) for i in range(nagents)]
    dcop.add_agents(agents)
    m = load_algorithm_module(algo)
    algo_def = AlgorithmDef.build_with_default_param(algo, dict(params), mode=case["objective"], parameters_definitions=m.algo_params)
    cg = import_module("pydcop.computations_graph." + m.GRAPH_TYPE).build_computation_graph(dcop)
    return dcop, agents, algo_def, cg


def run_orchestrated(case, algo, params, nagents, dist_kind, seed, timeout=20.0, lines=False, monitor=None, jitter_p=0.2,
                     replication=None, k_target=None, pause_resume=False, collect_moment="value_change", period=None, watchdog=90.0, p_long=0.0, stall=None, start_delays=False, removal=None):
    """one orchestrated thread-mode run, observed where commands/solve.py looks: orchestrator.status right after run()"""
    from pydcop.infrastructure.run import run_local_thread_dcop
    from pydcop.infrastructure import communication as comm_mod, agents as agents_mod, discovery as disc_mod, \
        orchestrator as orch_mod, orchestratedagents as oa_mod, computations as comp_mod

    # only ERROR records are let through, into a bounded in-memory list (agent threads log their death there)
    logging.disable(logging.WARNING)
    rng = _r.Random(seed)
    out = {"seed": seed, "algo": algo, "dist": dist_kind, "nagents": nagents, "errors": [], "log_errors": []}

    class _Cap(logging.Handler):
        def emit(self, rec):
            try:
                if len(out["log_errors"]) < 12:
                    out["log_errors"].append("%s: %s" % (rec.name, rec.getMessage()[:400]))
            except Exception:
                pass

    cap = _Cap(level=logging.ERROR)
    root = logging.getLogger()
    root.addHandler(cap)
    dcop, agents, algo_def, cg = build_problem(case, algo, params, nagents)
    try:
        dist = make_distribution(dist_kind, cg, agents, rng, seed)
    except Exception as e:
        out["dist_error"] = "%s: %s" % (type(e).__name__, e)
        root.removeHandler(cap)
        logging.disable(logging.CRITICAL)
        return out
    out["mapping"] = {a: list(cs) for a, cs in dist.mapping().items()}
    per = threaded.Perturb(seed, p_sleep=jitter_p, lines=lines, p_long=p_long)
    Messaging = comm_mod.Messaging
    orig_post, orig_next = Messaging.post_msg, Messaging.next_msg

    def post_msg(self, *a, **k):
        per.jitter()
        return orig_post(self, *a, **k)

    def next_msg(self, *a, **k):
        r = orig_next(self, *a, **k)
        per.jitter()
        return r

    Messaging.post_msg, Messaging.next_msg = post_msg, next_msg
    live_agents = []
    orig_agent_init = agents_mod.Agent.__init__

    def recording_init(self, *a, **k):
        orig_agent_init(self, *a, **k)
        live_agents.append(self)

    agents_mod.Agent.__init__ = recording_init
    orig_on_start = agents_mod.Agent._on_start
    if start_delays:
        drng = _r.Random(seed + 99)
        dlock = threading.Lock()

        def delayed_on_start(self):
            # injected delay at thread start-up: some agents come up (and register) later than the others
            with dlock:
                d = drng.choice([0, 0, 0, 0.02, 0.06, 0.15]) if self.name != "orchestrator" else 0
            if d:
                out.setdefault("start_delays", {})[self.name] = d
                time.sleep(d)
            return orig_on_start(self)

        agents_mod.Agent._on_start = delayed_on_start
    fatal = []
    stall_state = {"done": False, "t_run": None}

    def cb_jitter():
        per.jitter()
        # optional fault: one agent thread is stuck in a callback for `stall[1]` seconds, `stall[0]` seconds after run()
        if stall is not None and not stall_state["done"] and stall_state["t_run"] is not None \
                and time.time() - stall_state["t_run"] > stall[0] \
                and threading.current_thread().name.startswith("thread_a"):
            stall_state["done"] = True
            out["stalled_thread"] = threading.current_thread().name
            time.sleep(stall[1])

    if monitor is not None:
        monitor.install(jitter=cb_jitter)
    per.start(modules=(comm_mod, agents_mod, disc_mod, orch_mod, oa_mod, comp_mod))
    orch = None
    t0 = time.time()
    holder = {}

    def body():
        nonlocal orch
        orch = run_local_thread_dcop(algo_def, cg, dist, dcop, 10000, replication=replication, collect_moment=collect_moment, period=period)
        orch.set_error_handler(lambda e: fatal.append("%s: %s" % (type(e).__name__, e)))
        orch.deploy_computations()
        if k_target:
            orch.start_replication(k_target)
            orch.wait_ready()
        if pause_resume:
            def pr():
                time.sleep(0.15 + rng.random() * 0.2)
                try:
                    # executed on the orchestrator's own thread, through the same indirect call the orchestrator uses
                    # for its management methods (a scenario event does the same pause / resume requests)
                    orch.mgt._pv_pause = lambda msg, t: orch.mgt._request_pause()
                    orch.mgt._pv_resume = lambda msg, t: orch.mgt._request_resume()
                    orch._mgt_method("_pv_pause", None)
                    time.sleep(0.05 + rng.random() * 0.1)
                    orch._mgt_method("_pv_resume", None)
                except Exception as e:
                    out["errors"].append("pause/resume: %s" % e)
            threading.Thread(target=pr, name="pv_pause_resume", daemon=True).start()
        stall_state["t_run"] = time.time()
        if removal:
            from pydcop.dcop.scenario import Scenario, DcopEvent, EventAction

            sc = Scenario([DcopEvent("e1", actions=[EventAction("remove_agent", agent=a) for a in removal])])

            def injector():
                # same hand-over as in the C27 harness: the scenario goes to the orchestrator's own _process_event()
                # once every agent is reported running
                deadline = time.time() + 10
                while time.time() < deadline:
                    st = dict(orch.mgt._agts_state)
                    if st and all(v == "running" for v in st.values()):
                        break
                    time.sleep(0.01)
                time.sleep(0.1 + rng.random() * 0.2)
                out["removal_injected_at"] = time.time() - t0
                orch._events_iterator = iter(sc)
                orch._process_event()

            threading.Thread(target=injector, name="pv_injector", daemon=True).start()
        orch.run(timeout=timeout)
        out["run_wall"] = time.time() - t0
        out["status"] = orch.status
        met = orch.end_metrics()
        out["metrics"] = {k: met.get(k) for k in ("status", "assignment", "cost", "violation", "cycle", "msg_count", "msg_size")}
        try:
            out["dcop_solution_cost"] = list(dcop.solution_cost(met["assignment"], 10000)) if met.get("assignment") else None
        except Exception as e:
            out["dcop_solution_cost"] = "%s: %s" % (type(e).__name__, e)

    import os, shutil, tempfile
    scratch = tempfile.mkdtemp(prefix="pvorch_") if removal else None
    cwd0 = os.getcwd()
    try:
        if scratch:
            os.chdir(scratch)
        # harness watchdog: the driver runs in its own thread so that a run that blocks for ever is reported, not waited for
        err = []

        def guarded():
            try:
                body()
            except Exception:
                import traceback

                err.append(traceback.format_exc()[-800:])

        drv = threading.Thread(target=guarded, name="pv_driver", daemon=True)
        drv.start()
        drv.join(watchdog)
        if drv.is_alive():
            out["watchdog"] = True
            # logical evidence rather than the clock: is every agent idle with an empty queue, twice in a row ?
            def snapshot_idle():
                st = []
                for ag in live_agents:
                    try:
                        st.append((ag.name, ag.t.is_alive(), ag._messaging._queue.qsize(), ag._messaging.msg_queue_count))
                    except Exception:
                        st.append((getattr(ag, "name", "?"), None, None, None))
                return st

            s1 = snapshot_idle()
            time.sleep(1.5)
            s2 = snapshot_idle()
            out["blocked_while_quiescent"] = bool(s1) and s1 == s2 and all(q == 0 for (_, alive_, q, _) in s2 if alive_)
            out["blocked_state"] = s2
            alive = [t.name for t in threading.enumerate() if t.name.startswith("thread_")]
            out["errors"].append("harness watchdog: driver still blocked after %s s (agent threads alive: %r)" % (watchdog, alive))
        out["errors"] += err
    except Exception as e:
        import traceback

        out["errors"].append(traceback.format_exc()[-800:])
    finally:
        per.stop()
        Messaging.post_msg, Messaging.next_msg = orig_post, orig_next
        agents_mod.Agent._on_start = orig_on_start
        agents_mod.Agent.__init__ = orig_agent_init
        if orch is not None:
            try:
                if getattr(orch, "_timeout_timer", None):
                    orch._timeout_timer.cancel()
                orch.stop_agents(5)
                orch.stop()
            except Exception as e:
                out["errors"].append("stop: %s: %s" % (type(e).__name__, e))
        if monitor is not None:
            monitor.uninstall()
        root.removeHandler(cap)
        logging.disable(logging.CRITICAL)
        if scratch:
            os.chdir(cwd0)
            shutil.rmtree(scratch, ignore_errors=True)
    out["fatal"] = fatal
    out["injected"] = per.injected
    out["long_sleeps"] = per.long_sleeps
    out["line_events"] = per.line_events
    out["wall"] = time.time() - t0
    out["threads_left"] = [t.name for t in threading.enumerate() if t.name.startswith("thread_")]
    return out

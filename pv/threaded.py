"""Engine B helpers: logical clock, schedule perturbation of the real threaded runtime."""
import itertools
import random
import sys
import threading
import time


class Clock:
    """one global logical clock; all monitor state is only touched under its lock"""

    def __init__(self):
        self.lock = threading.Lock()
        self._c = itertools.count(1)
        self.events = []

    def rec(self, *ev):
        with self.lock:
            t = next(self._c)
            self.events.append((t,) + ev)
            return t


class Perturb:
    """layer 1: tiny switch interval; layer 2: random short sleeps at wrapped seams; layer 3 (optional):
    sys.monitoring LINE events on the code objects of the infrastructure modules yielding the GIL"""

    TOOL = 3

    def __init__(self, seed, p_sleep=0.25, max_sleep=0.0004, lines=False, p_line=0.02, p_long=0.0, max_long=0.02):
        self.rng = random.Random(seed)
        self.lock = threading.Lock()
        self.p_sleep = p_sleep
        self.max_sleep = max_sleep
        self.lines = lines
        self.p_line = p_line
        self.p_long = p_long
        self.max_long = max_long
        self.long_sleeps = 0
        self.injected = 0
        self.line_events = 0
        self._old_interval = None
        self._codes = []

    def jitter(self):
        with self.lock:
            r = self.rng.random()
            d = self.rng.random() * self.max_sleep
        if r < self.p_long:
            # rare long stall: one thread is descheduled for many message hand-offs of the others
            self.injected += 1
            self.long_sleeps += 1
            time.sleep(d / self.max_sleep * self.max_long)
        elif r < self.p_sleep:
            self.injected += 1
            time.sleep(d)
        elif r < self.p_sleep * 2:
            self.injected += 1
            time.sleep(0)

    def start(self, modules=()):
        self._old_interval = sys.getswitchinterval()
        sys.setswitchinterval(1e-5)
        if self.lines and hasattr(sys, "monitoring"):
            mon = sys.monitoring
            try:
                mon.use_tool_id(self.TOOL, "pv-yield")
            except ValueError:
                pass
            files = tuple(m.__file__ for m in modules)
            rng = random.Random(self.rng.random())
            lock = threading.Lock()

            def on_line(code, line):
                if code.co_filename not in files:
                    return mon.DISABLE
                self.line_events += 1
                with lock:
                    r = rng.random()
                if r < self.p_line:
                    self.injected += 1
                    time.sleep(0)

            mon.register_callback(self.TOOL, mon.events.LINE, on_line)
            mon.set_events(self.TOOL, mon.events.LINE)

    def stop(self):
        if self._old_interval is not None:
            sys.setswitchinterval(self._old_interval)
        if self.lines and hasattr(sys, "monitoring"):
            mon = sys.monitoring
            try:
                mon.set_events(self.TOOL, 0)
                mon.register_callback(self.TOOL, mon.events.LINE, None)
                mon.free_tool_id(self.TOOL)
            except Exception:
                pass


def free_http_layer(rng, on_error="fail"):
    """a real HttpCommunicationLayer on a free 127.0.0.1 port (ports drawn per process; a busy port is skipped)"""
    import os
    from pydcop.infrastructure.communication import HttpCommunicationLayer

    for attempt in range(40):
        port = 20000 + ((os.getpid() * 7 + rng.randrange(0, 20000)) % 30000)
        try:
            return HttpCommunicationLayer(("127.0.0.1", port), on_error=on_error)
        except OSError:
            continue
    return None

"""Worker entry: `python -m pv.worker <module>`; job json on stdin; prints `PVRESULT <json>`."""
import importlib
import json
import sys
import traceback

from pv import common


def main():
    # kill -USR1 <pid> dumps the stacks of every thread of a worker to its stderr (diagnosis of a stuck run)
    try:
        import faulthandler, signal

        faulthandler.register(signal.SIGUSR1, all_threads=True)
    except Exception:
        pass
    modname = sys.argv[1]
    job = json.loads(sys.stdin.read() or "{}")
    common.assert_repo_sources()
    import logging

    logging.disable(logging.CRITICAL)  # the checks read monitors, not logs
    try:
        mod = importlib.import_module("pv.checks." + modname)
        res = mod.worker(job)
    except BaseException as e:  # report harness failures as such (never as a verdict)
        res = {"harness_error": "%s: %s" % (type(e).__name__, e), "trace": traceback.format_exc()[-3000:]}
    sys.stdout.write("\nPVRESULT " + json.dumps(common.jsonable(res)) + "\n")
    sys.stdout.flush()
    sys.stderr.flush()
    # the result is out: do not let a non-daemon thread left behind by a run (an agent that was never stopped) keep the
    # worker alive until the parent's timeout
    import os

    os._exit(0)


if __name__ == "__main__":
    main()

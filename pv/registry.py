"""Metadata of the registered checks (MANIFEST.json is generated from this)."""
import os

VERIF = os.path.dirname(os.path.dirname(os.path.abspath(__file__)))

ENGINES = [
    {"name": "A-detsched", "path": "pv/detsched.py",
     "serves_properties": ["C01", "C02", "C03", "C04", "C05", "C06", "C07", "C08", "C09", "C10", "C19", "C20", "C25"],
     "kind_free_text": "deterministic single-threaded scheduler that owns message_sender of the real computations; random per-channel-FIFO schedules with biases; monitors on finished/value_selection/new_cycle seams; replayable choice lists"},
    {"name": "B-threads", "path": "pv/threaded.py", "serves_properties": ["C18", "C21", "C22", "C27"],
     "kind_free_text": "real Agent/Messaging/Orchestrator threads with schedule perturbation (switch interval, sleeps at message boundaries, sys.monitoring LINE yield injection); offline checkers over recorded histories"},
    {"name": "C-refcheck", "path": "pv/checks/",
     "serves_properties": ["C06", "C11", "C12", "C13", "C14", "C15", "C16", "C17", "C23", "C24", "C26", "C28", "C29", "C30", "C31"],
     "kind_free_text": "reference-model monitors: real functions called on seeded generated inputs, results compared with independent oracles computed from harness-owned data; several PYTHONHASHSEED workers"},
]

NOTES = ("Runtime monitoring only. Exit 0 held / 1 VIOLATION / 2 INCONCLUSIVE (monitor not reached, worker died). "
         "Known findings: /verif/KNOWN_FINDINGS.json keyed by mechanism. VERIF_SEED selects the seed.")

NOT_APPLICABLE = {}

_A = "A-detsched"
_B = "B-threads"
_C = "C-refcheck"

CHECKS = {
    "C01": dict(engine=_A, technique="runtime monitoring: real DPOP computations under a deterministic random scheduler, brute-force optimum oracle",
                text="Held on the executions observed: every generated DCOP x schedule ran the real DpopAlgo computations to quiescence; monitors checked finished() exactly once per computation, domain membership, and total cost == brute-force optimum. Exploration is the right level: the property quantifies over inputs and schedules, which are sampled (seeded), not enumerated.",
                note="Trusted: harness brute force over its own cost tables; per-channel FIFO is the only ordering assumed; instances <= 7 variables, domains <= 4."),
    "C02": dict(engine=_A, technique="runtime monitoring: real SyncBB computations under a deterministic random scheduler, brute-force optimum oracle",
                text="Held on the executions observed: generated binary DCOPs (incl. single variable, unconstrained variables, duplicate scopes) x start orders/FIFO schedules; monitors: first computation finishes, terminate reaches everyone, nobody finishes twice, final values are domain values with cost == brute-force optimum.",
                note="min-mode instances use non-negative costs (branch and bound on partial costs); max-mode arbitrary; <= 6 variables, domains <= 4."),
    "C03": dict(engine=_A, technique="runtime monitoring: cycle-cut monitor over real MGM/MGM2 runs under a deterministic random scheduler, independent cost oracle",
                text="Held (except the listed known finding) on the executions observed: per connected component, the logical cut A_k (values held when entering cycle k) never has a worse cost than A_k-1 (constraints + variable costs), and constraint-sharing variables that change in the same cycle are go/go partners (from the message trace).",
                note="Logical cycle cuts stand for the aligned instants of the statement (argument in pv/lsrun.py); instances <= 6 variables; randomness seeded."),
    "C04": dict(engine=_A, technique="runtime monitoring: cycle-cut monitor over real MGM/MGM2 runs, 1-opt oracle by enumeration",
                text="Held (except the listed known finding) on the executions observed: whenever a complete cycle leaves a component's assignment unchanged, enumeration over every variable and value finds no strictly improving unilateral change.",
                note="Same runs and assumptions as C03; thousands of no-move cycles are observed per run (counter nomove_cycles_multi)."),
    "C05": dict(engine=_A, technique="runtime monitoring: real maxsum/amaxsum computations on generated acyclic factor graphs with a unique optimum, under a deterministic random scheduler; differential re-run classifies the stability cut-off",
                text="Held (except the listed known finding) on the executions observed: after 4*(diameter+SAME_COUNT+3) synchronous rounds, or asynchronous quiescence, every variable computation holds the unique optimal value (brute force), for min and max, start_messages leafs/leafs_vars/all, stability default and 0.",
                note="Unique optimum enforced by the generator; damping=0, noise=0; trees/forests <= 7 variables with unary/binary/ternary factors."),
    "C07": dict(engine=_A, technique="runtime monitoring: finished()/cycle_count monitors on real MGM, MGM2, DSA computations under a deterministic random scheduler with start-order biases",
                text="Held on the executions observed: every computation reported finished exactly once, at cycle_count == stop_cycle (in start() when it has no neighbour), no handler or constructor raised, and the pool became quiescent with everybody finished inside the step budget.",
                note="Bounded progress (budget proportional to k * links) stands for 'eventually'; per-channel FIFO; k in 1..10."),
    "C08": dict(engine=_A, technique="runtime monitoring: send-log oracle on on_new_cycle arguments of real SynchronousComputationMixin computations (probe algorithm, maxsum, dsatuto) under a deterministic random scheduler",
                text="Held on the executions observed: round ids advance 0,1,2.. without gap, each round hands exactly the algorithm messages the neighbours tagged with that round (same objects) while all other neighbours sent exactly one sync, no ComputationException; next-round buffering was exercised (counter ahead_buffered).",
                note="Per-channel FIFO; messages by reference; NCBB is attempted only (its own on_new_cycle raises on this tree, reported as ncbb_skipped)."),
    "C09": dict(engine=_A, technique="runtime monitoring: assignment snapshot at every finished() of real DBA computations under a deterministic random scheduler, CSP oracle from harness tables",
                text="Held on the executions observed: at each of the finished() notifications the values of all computations violated no constraint (no table entry >= infinity), incl. max_distance == diameter; unsatisfiable CSPs never finished.",
                note="Connected CSPs <= 7 variables; a raising handler ends the observation of that run (not part of the statement)."),
    "C10": dict(engine=_A, technique="runtime monitoring: class-level contract on VariableComputation.value_selection + current_value invariant after every scheduler step, all 11 algorithms",
                text="Held on the executions observed: every monitored value_selection argument and every current_value read was None or equal to a domain value, for all eleven algorithms (per-algorithm call counts in coverage; fewer than 20 calls for one algorithm makes the run inconclusive).",
                note="Membership by equality; int/str/float domains; noise and damping at defaults and varied."),
    "C06": dict(engine=_C, technique="runtime monitoring: reference-model oracle on generated calls of the best-response helpers + value_selection contract on real dsa/adsa/dsatuto runs under the deterministic scheduler",
                text="Held on the executions observed: find_arg_optimal / find_optimal / optimal_cost_value / projection returned exactly the oracle arg-best set and cost (enumeration over harness tables) for magnitudes up to beyond 2^63 and +-inf, with and without own costs; every DSA-family move made with a full neighbour view went to an oracle-optimal value.",
                note="Numerically ambiguous cases (float cancellation changing the ranking) are skipped and counted; DSA neighbour views are read from the computation at the time of the move."),
    "C12": dict(engine=_C, technique="runtime monitoring: reference-model oracle (harness tables) on generated set_value_for_assignment / join / projection calls",
                text="Held on the executions observed: the updated relation differs from the original exactly at the assignment (dict and list form, int/float/huge-int tables) and the original buffer is untouched; join is over the union of scopes and equals u1+u2 on every assignment; projection is over scope minus x and equals min/max over x.",
                note="Relations over <= 4 variables, domains <= 3; operands: matrix, python function, zero-ary."),
    "C11": dict(engine=_C, technique="runtime monitoring: reference-model oracle over all relation kinds, all call forms and one-/multi-step slices, replicated under 5 PYTHONHASHSEED worker processes",
                text="Held (except the listed known finding) on the executions observed: for each of the 13 relation constructions, keyword / positional (dimension order) / dict / list calls all return the table value, and every one-step and 2-3 step slice is a relation over exactly the remaining variables that agrees with the table on every completion, under hash seeds 0,1,2,3,12345.",
                note="Relations over <= 4 variables, domains <= 3, variable lists permuted; per-process consistency is what is required under each hash seed."),
    "C13": dict(engine=_C, technique="runtime monitoring: reference-model oracle (hard-term count, soft sum from harness tables) on generated DCOP.solution_cost / assignment_cost calls",
                text="Held on the executions observed: solution_cost == (number of constraint and variable-cost terms equal to infinity, sum of the others) incl. zero-ary constraints, falsy domain values, external variables; every strict sub-assignment (also padded with foreign keys) raised ValueError; assignment_cost equals the defining sums with and without variable costs and with kwargs values; add_agents accepts AgentDef/list/tuple/dict.",
                note="infinity in {10000, 1000, inf}; <= 6 variables; plain left-to-right float sums."),
    "C14": dict(engine=_C, technique="runtime monitoring: round-trip oracle dcop_yaml -> load_dcop / load_dcop_from_file (str, list, split files) against the generator's description",
                text="Held on the executions observed: loaded DCOPs have the same domains (values and types), variables, initial values (incl. 0), every extensional and intentional constraint equal on every assignment, and every agent the same capacity, route() for all pairs incl. self and hosting_cost() for all computations incl. an unknown one.",
                note="Restricted to what the format expresses: one global default route, symmetric routes, no variable cost functions, space-free string values."),
    "C16": dict(engine=_C, technique="runtime monitoring: structural oracle (from the generator's description) on the three graph builders, replicated under 3 PYTHONHASHSEED worker processes",
                text="Held on the executions observed: hyper-graph nodes/constraints/neighbours/links, factor-graph bipartite structure (nodes, links, neighbours, constraints_names) and the ordered graph's next/previous chain in plain lexical order all match the DCOP description, incl. isolated variables, duplicate scopes and names whose natural order differs from string order.",
                note="<= 8 variables; lexical == plain string order."),
    "C17": dict(engine=_C, technique="runtime monitoring: DFS-forest validity oracle (harness graph algorithms) on pseudo-trees built for generated constraint graphs up to thousands of variables",
                text="Held on the executions observed: one node per variable, mutually consistent parent/children and pseudo links, acyclic parents with one root per component, every constraint-sharing pair ancestor/descendant and directly linked by a tree or back edge, pseudo links only along ancestor lines, node.constraints == constraints on its variable, no exception up to 1500 (quick) / 4000 (thorough) variables.",
                note="Only structure matters (zero-valued function relations); chains, stars, grids, caterpillars for the large sizes."),
    "C15": dict(engine=_C, technique="runtime monitoring: wire round trip (simple_repr/json/from_repr) of messages harvested from real algorithm and infrastructure runs, harness-side deep comparison, differential by-reference vs through-the-wire runs, pickle round trip of AgentDef",
                text="Held on the executions observed: every harvested algorithm message, every orchestration/discovery/replication message, and the ComputationDefs of all four graph models decode into objects with the same fields, links, neighbours and relation values (harness deep comparison); running each algorithm with all messages pushed through the wire ends on the same assignment as by reference; unpickled AgentDefs keep name, extra attributes, hosting costs, routes.",
                note="Wire = what HttpCommunicationLayer/MPCHttpHandler do; generated orchestration contents use only shapes the runtime produces (string-keyed dicts)."),
    "C28": dict(engine=_C, technique="runtime monitoring: declaration-derived oracle on generated calls of prepare_algo_params / AlgorithmDef.build_with_default_param / build_algo_def for all shipped algorithm modules",
                text="Held on the executions observed: returned parameter sets equal the declared names; user values (incl. falsy 0/0.0 and 'name:value' strings) are converted to the declared type and checked against allowed values, defaults fill the rest, unknown names and invalid values raise (ValueError/TypeError, SystemExit in the CLI helper) for all 14 algorithm modules and all four entry points.",
                note="Lossy-but-convertible numerics (float for int, bool) may be converted or rejected."),
    "C29": dict(engine=_C, technique="runtime monitoring: independent cartesian-product oracle on generated batch parameter definitions, replicated under 3 PYTHONHASHSEED worker processes and compared across them",
                text="Held on the executions observed: every expansion equals the independent product as a multiset with no duplicate, repeated calls and the three hash seeds give the same order, and every combination's option string tokenises back to each chosen (name, value) / (name, sub:value) exactly once, incl. two nested groups.",
                note=">= 1 parameter, distinct space-free values."),
    "C31": dict(engine=_C, technique="runtime monitoring: dict-based reference model on generated AgentDef arguments and create_agents calls (list, int list, range, tuple-of-lists indexes)",
                text="Held on the executions observed: route(self)==0, specific routes, default route, specific/default hosting costs, extra attributes and extra_attr() match the model on known and unknown names, and every mass-created agent matches, accessor by accessor, an individually built AgentDef with the same arguments.",
                note="Finite name universe (5 agents, 4 computations) plus unknown names."),
    "C19": dict(engine=_A, technique="runtime monitoring: offline order/exactly-once checker over histories recorded on a real Agent + Messaging queue stepped deterministically by the harness",
                text="Held on the executions observed: in every generated history of receptions, posts, start, pauses and resumes each received message was handled exactly once, per-sender handling order equals reception order, held messages kept their relative order and preceded every message received after they were first held, and posts made while paused reached the sink exactly once in posting order.",
                note="The harness loop (next_msg/_handle_message/run/pause_computations) stands for the agent thread; thousands of held messages and paused posts per run (counters)."),
    "C20": dict(engine=_A, technique="runtime monitoring: real Directory/Discovery computations over the harness-owned transport, generated valid histories interleaved with random FIFO deliveries, convergence oracle after drain (ground truth folded from the messages the directory handled)",
                text="Held (except the listed known finding) on the executions observed: after draining, the directory equals the fold of the publish messages it handled, every instance's view of each agent/computation/replica it is still subscribed to equals the directory's, callback events fold to the directory's final state, one-shot callbacks fired at most once and no handler or API call raised.",
                note="Valid API use per the reference model in pv/checks/c20.py (agents register first and leave last, one owner per computation, replicas only of known computations, no mix of callback / callback-less subscriptions on one item); single discovery priority => per-channel FIFO."),
    "C25": dict(engine=_A, technique="runtime monitoring: real UCSReplication/Discovery/Directory computations over the harness-owned transport; contract on _accept_replica evaluating the acceptance rule independently, replication_done reports and final placement oracle",
                text="Held on the executions observed: every agent reported replication done within the step budget; reported hosts are distinct, never the owner, at most k, hold the replica and are listed by the directory; every _accept_replica call satisfied remaining capacity >= footprint + worst case over <= k-1 owners of the replicas held, incl. thousands of acceptances by agents already holding several replicas.",
                note="Stub agents (name, AgentDef, computations() with footprints) in one process; symmetric routes, one global default route; k in 1..3."),
    "C26": dict(engine=_C, technique="runtime monitoring: set-based oracle on the removal helpers for every departed subset of generated discovery states, and defining-formula oracle on the four repair constraints over every binary assignment of their scope",
                text="Held on the executions observed: candidates are exactly the surviving replica holders of orphaned computations, fixed neighbours are hosted on surviving agents, candidate neighbours are the surviving replica holders; hosted == 0 iff exactly one candidate selected, capacity == 0 iff selected footprints fit, hosting and communication constraints equal their defining sums on every binary assignment.",
                note="<= 5 agents, <= 6 computations; exhaustive over departed subsets and binary assignments inside each generated instance."),
}

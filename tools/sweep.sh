#!/bin/sh
# usage: tools/sweep.sh <tier> "<seeds>" [IDs...]   -- runs checks of the current checkout for several VERIF_SEED values,
# evidence / replays go to scratch directories under ./sweep_out (never to evidence/); prints one line per run and the
# violation / inconclusive lines. Uses $VP_RUN_REPO as the repository when set (vp run --with-repo).
HERE=$(cd "$(dirname "$0")/.." && pwd)
TIER=${1:-quick}; SEEDS=${2:-0}; shift 2 2>/dev/null
IDS="$@"
[ -z "$IDS" ] && IDS=$(/venv/bin/python -c "import json;print(' '.join(sorted(c['property_id'] for c in json.load(open('$HERE/MANIFEST.json'))['checks'])))")
[ -n "$VP_RUN_REPO" ] && export PV_REPO="$VP_RUN_REPO"
OUT="$HERE/sweep_out"; mkdir -p "$OUT"
export PV_EVIDENCE_DIR="$OUT/evidence" PV_REPLAY_DIR="$OUT/replays"
for s in $SEEDS; do
  for id in $IDS; do
    t0=$(date +%s)
    VERIF_SEED=$s "$HERE/check" "$id" "$TIER" > "$OUT/$id.$TIER.$s.log" 2>&1; rc=$?
    t1=$(date +%s)
    echo "RUN $id $TIER seed=$s rc=$rc wall=$((t1-t0))s $(grep -c '^VIOLATION' "$OUT/$id.$TIER.$s.log") violations"
    if [ $rc -ne 0 ]; then grep 'violated \[\|^INCONCLUSIVE' "$OUT/$id.$TIER.$s.log" | cut -c1-400 | sort | uniq -c | sort -rn | head -8; fi
  done
done
echo SWEEP-DONE

#!/venv/bin/python
"""Confirm a candidate seeded change and record it under /verif/seeded/<name>/.

usage: tools/seed_mutation.py <src dir with patch.diff demo.py notes.md> <name> <property> <check ids...> [--thorough]
Everything runs in a scratch worktree of /repo HEAD (removed afterwards); /repo itself is never touched.
"""
import json, os, shutil, subprocess, sys, tempfile, time, xml.etree.ElementTree as ET

VERIF = os.path.dirname(os.path.dirname(os.path.abspath(__file__)))
PY = '/venv/bin/python'


def sh(cmd, cwd=None, env=None, timeout=3600):
    p = subprocess.run(cmd, cwd=cwd, env=env, stdout=subprocess.PIPE, stderr=subprocess.STDOUT, text=True, timeout=timeout)
    return p.returncode, p.stdout


def stable_tests(wt):
    base = json.load(open('/root/.vp/BASELINE.json'))
    stable = set(base['stable_pass'])
    env = dict(os.environ, PYTHONPATH=wt)
    passed = set()
    files = None
    for attempt in range(10):
        if attempt >= 3:
            # only the fixed-port HTTP tests are left: another test run on this machine holds the port, wait for it
            if not all('test_infra_communication' in m for m in missing):
                break
            time.sleep(20)
        fd, path = tempfile.mkstemp(suffix='.xml'); os.close(fd)
        cmd = [PY, '-m', 'pytest', '-q', '-p', 'no:cacheprovider', '--timeout=90', '--continue-on-collection-errors', '--junitxml=' + path]
        if files:
            cmd += files
        try:
            sh(cmd, cwd=wt, env=env, timeout=420)
        except subprocess.TimeoutExpired:
            pass  # pytest sometimes hangs at interpreter exit on this machine after writing its report
        try:
            for tc in ET.parse(path).getroot().iter('testcase'):
                if not any(ch.tag in ('failure', 'error', 'skipped') for ch in tc):
                    passed.add('%s::%s' % (tc.get('classname'), tc.get('name')))
        finally:
            os.unlink(path)
        missing = sorted(stable - passed)
        if not missing:
            break
        files = sorted({'tests/' + '/'.join(m.split('::')[0].split('.')[1:3]) + '.py' for m in missing if not m.startswith('::')})
        files = [f for f in files if os.path.exists(os.path.join(wt, f))]
    return sorted(stable - passed)


def main():
    args = [a for a in sys.argv[1:] if not a.startswith('--')]
    thorough = '--thorough' in sys.argv
    src, name, prop = args[0], args[1], args[2]
    checks = args[3:] or [prop]
    wt = tempfile.mkdtemp(prefix='seedwt_', dir='/tmp')
    os.rmdir(wt)
    meta = {"name": name, "property": prop, "source": "independent sub-agent given only the property text and a scratch worktree",
            "confirmed_at": time.strftime('%Y-%m-%dT%H:%M:%SZ', time.gmtime()), "ran": []}
    rc, out = sh(['git', '-C', '/repo', 'worktree', 'add', '--detach', wt, 'HEAD'])
    meta["repo_head"] = sh(['git', '-C', '/repo', 'rev-parse', '--short', 'HEAD'])[1].strip()
    try:
        env = dict(os.environ, PYTHONPATH=wt, PYTHONHASHSEED='0')
        demo = os.path.join(src, 'demo.py')
        rc0, o0 = sh([PY, demo], cwd=wt, env=env, timeout=900)
        meta["demo_on_unchanged_tree"] = {"exit": rc0, "tail": o0[-300:]}
        rc, o = sh(['git', 'apply', os.path.join(src, 'patch.diff')], cwd=wt)
        if rc != 0:
            rc, o = sh(['git', 'apply', '--3way', os.path.join(src, 'patch.diff')], cwd=wt)
            unmerged = sh(['git', 'diff', '--name-only', '--diff-filter=U'], cwd=wt)[1].strip()
            if rc != 0 or unmerged:
                print('PATCH DOES NOT APPLY to current HEAD:', o[-300:]); return 3
            sh(['git', 'reset', '-q'], cwd=wt)
        patch = sh(['git', 'diff'], cwd=wt)[1]
        rc1, o1 = sh([PY, demo], cwd=wt, env=env, timeout=900)
        meta["demo_on_changed_tree"] = {"exit": rc1, "tail": o1[-400:]}
        if rc0 != 0 or rc1 == 0:
            print('DEMO NOT CONFIRMED: unchanged exit %s, changed exit %s' % (rc0, rc1)); print(o0[-300:]); print(o1[-300:]); return 4
        missing = stable_tests(wt)
        meta["stable_tests_missing_with_change"] = missing
        if missing:
            print('STABLE TESTS BROKEN by the change:', missing[:5]); return 5
        # run the checks against the changed tree
        ev = tempfile.mkdtemp(prefix='seedev_', dir='/tmp')
        cenv = dict(os.environ, PV_REPO=wt, PV_EVIDENCE_DIR=ev, PV_REPLAY_DIR=os.path.join(ev, 'replays'))
        caught_by = []
        for cid in checks:
            for tier in (['quick', 'thorough'] if thorough else ['quick']):
                t0 = time.time()
                rc, o = sh([os.path.join(VERIF, 'check'), cid, tier], cwd=VERIF, env=cenv, timeout=7200)
                viol = [l for l in o.splitlines() if l.startswith('VIOLATION')]
                first = [l.strip() for l in o.splitlines() if 'violated [' in l][:2]
                meta["ran"].append({"check": cid, "tier": tier, "exit": rc, "violation_lines": len(viol), "first": first, "wall_s": round(time.time() - t0, 1)})
                print('%s %s -> exit %s, %d VIOLATION lines %s' % (cid, tier, rc, len(viol), first[:1]))
                if rc == 1 and viol:
                    caught_by.append('%s %s' % (cid, tier))
                    break
        shutil.rmtree(ev, ignore_errors=True)
        meta["caught_by"] = caught_by
        dst = os.path.join(VERIF, 'seeded', name)
        os.makedirs(dst, exist_ok=True)
        open(os.path.join(dst, 'patch.diff'), 'w').write(patch)
        shutil.copy(demo, os.path.join(dst, 'demo.py'))
        for f in os.listdir(src):  # helper modules the demonstration imports
            if f.endswith('.py') and f != 'demo.py' and os.path.isfile(os.path.join(src, f)):
                shutil.copy(os.path.join(src, f), os.path.join(dst, f))
        if os.path.exists(os.path.join(src, 'notes.md')):
            shutil.copy(os.path.join(src, 'notes.md'), os.path.join(dst, 'notes.md'))
            notes = open(os.path.join(src, 'notes.md')).read()
            meta["needs_to_manifest"] = notes[:1200]
        json.dump(meta, open(os.path.join(dst, 'meta.json'), 'w'), indent=1)
        print('SEEDED', name, 'caught_by', caught_by)
        return 0 if caught_by else 1
    finally:
        sh(['git', '-C', '/repo', 'worktree', 'remove', '--force', wt])
        shutil.rmtree(wt, ignore_errors=True)


sys.exit(main())

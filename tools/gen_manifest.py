#!/venv/bin/python
"""Regenerates MANIFEST.json from pv/registry.py (single source of truth for check metadata)."""
import json, os, sys
sys.path.insert(0, os.path.dirname(os.path.dirname(os.path.abspath(__file__))))
from pv import registry

def main():
    props = [json.loads(l) for l in open(os.path.join(registry.VERIF, 'properties.jsonl'))]
    ids = [p['id'] for p in props]
    checks = []
    for pid in ids:
        c = registry.CHECKS.get(pid)
        if not c:
            continue
        checks.append({
            "property_id": pid,
            "quick_cmd": "./check %s quick" % pid,
            "thorough_cmd": "./check %s thorough" % pid,
            "evidence_file": "/verif/evidence/%s.json" % pid,
            "replay_cmd_template": "./check %s --replay {path}" % pid,
            "engine": c["engine"],
            "level_claimed": {"category": c.get("level", "exploration"), "text": c["text"], "design_ref": "DESIGN.md section 4, %s" % pid},
            "level_note": c["note"],
            "technique": c["technique"],
        })
    na = [{"property_id": pid, "reason": registry.NOT_APPLICABLE.get(pid, "check not built yet (work in progress); not claimed")}
          for pid in ids if pid not in registry.CHECKS]
    man = {
        "version": 1,
        "setup_cmd": "true",
        "hooks": {
            "guard": "PYDCOP_VERIF",
            "enable": "no source hooks are needed: every monitor wraps public seams from the harness at run time; checks import pydcop directly from /repo's working tree (PYTHONPATH=/repo)",
            "baseline_off_cmd": "/venv/bin/python /verif/tools/baseline_check.py",
            "source_commits": [],
            "add_only": True,
        },
        "engines": registry.ENGINES,
        "checks": checks,
        "notes": registry.NOTES,
        "not_applicable": na,
    }
    json.dump(man, open(os.path.join(registry.VERIF, 'MANIFEST.json'), 'w'), indent=1)
    print("MANIFEST.json: %d checks, %d not_applicable" % (len(checks), len(na)))

main()

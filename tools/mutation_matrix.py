#!/venv/bin/python
"""Re-run checks against every seeded change under /verif/seeded and record what catches what.

usage: tools/mutation_matrix.py [--names C03_a,C05_a] [--checks own|C01,C06,...|all] [--tier quick] [--jobs 4]
Each seeded patch is applied in its own scratch worktree of /repo HEAD (never in /repo); the checks run against it through
PV_REPO with scratch evidence / replay directories. Patches that no longer apply to HEAD (the repository was repaired
since) are reported as such. Results: seeded/<name>/meta.json ("rerun" entry) and seeded/MATRIX.json.
"""
import concurrent.futures
import json
import os
import shutil
import subprocess
import sys
import tempfile
import time

VERIF = os.path.dirname(os.path.dirname(os.path.abspath(__file__)))
SEEDED = os.path.join(VERIF, 'seeded')


def sh(cmd, cwd=None, env=None, timeout=7200):
    p = subprocess.run(cmd, cwd=cwd, env=env, stdout=subprocess.PIPE, stderr=subprocess.STDOUT, text=True, timeout=timeout)
    return p.returncode, p.stdout


def all_checks():
    m = json.load(open(os.path.join(VERIF, 'MANIFEST.json')))
    return sorted(c['property_id'] for c in m['checks'])


def one(name, checks, tier):
    d = os.path.join(SEEDED, name)
    meta = json.load(open(os.path.join(d, 'meta.json')))
    wt = tempfile.mkdtemp(prefix='mmwt_', dir='/tmp')
    os.rmdir(wt)
    res = {"name": name, "property": meta["property"], "tier": tier, "results": {}, "caught_by": []}
    sh(['git', '-C', '/repo', 'worktree', 'add', '--detach', wt, 'HEAD'])
    res["repo_head"] = sh(['git', '-C', '/repo', 'rev-parse', '--short', 'HEAD'])[1].strip()
    ev = tempfile.mkdtemp(prefix='mmev_', dir='/tmp')
    try:
        rc, o = sh(['git', 'apply', os.path.join(d, 'patch.diff')], cwd=wt)
        if rc != 0:
            res["applies"] = False
            res["note"] = "patch does not apply to the current HEAD: " + o[-200:]
            return res
        res["applies"] = True
        if checks == 'own':
            # the property's own check plus the checks recorded as catching it when it was stored
            cl = [meta["property"]] + [c.split()[0] for c in meta.get("caught_by", []) if c.split()[0] != meta["property"]]
            stored = [c for c in meta.get("caught_by", []) if c.split()[0] == meta["property"]]
            if stored and all(c.endswith('thorough') for c in stored):
                tier = 'thorough'
                res["tier"] = tier
        else:
            cl = all_checks() if checks == 'all' else checks.split(',')
        env = dict(os.environ, PV_REPO=wt, PV_EVIDENCE_DIR=ev, PV_REPLAY_DIR=os.path.join(ev, 'replays'))
        for cid in cl:
            t0 = time.time()
            rc, o = sh([os.path.join(VERIF, 'check'), cid, tier], cwd=VERIF, env=env)
            viol = [l for l in o.splitlines() if l.startswith('VIOLATION')]
            first = [l.strip()[:300] for l in o.splitlines() if 'violated [' in l][:1]
            res["results"][cid] = {"exit": rc, "violation_lines": len(viol), "first": first, "wall_s": round(time.time() - t0, 1)}
            if rc == 1 and viol:
                res["caught_by"].append(cid)
        return res
    finally:
        sh(['git', '-C', '/repo', 'worktree', 'remove', '--force', wt])
        shutil.rmtree(wt, ignore_errors=True)
        shutil.rmtree(ev, ignore_errors=True)


def main():
    args = sys.argv[1:]
    opt = {"--names": None, "--checks": "own", "--tier": "quick", "--jobs": "3"}
    i = 0
    while i < len(args):
        if args[i] in opt:
            opt[args[i]] = args[i + 1]
            i += 2
        else:
            i += 1
    names = sorted(n for n in os.listdir(SEEDED) if os.path.isdir(os.path.join(SEEDED, n)))
    if opt["--names"]:
        names = [n for n in names if n in opt["--names"].split(',')]
    out = []
    with concurrent.futures.ThreadPoolExecutor(max_workers=int(opt["--jobs"])) as ex:
        futs = {ex.submit(one, n, opt["--checks"], opt["--tier"]): n for n in names}
        for f in concurrent.futures.as_completed(futs):
            r = f.result()
            out.append(r)
            print('%-8s applies=%s caught_by=%s %s' % (r["name"], r.get("applies"), r["caught_by"],
                                                      {k: v["exit"] for k, v in r["results"].items() if k not in r["caught_by"]}), flush=True)
            mp = os.path.join(SEEDED, r["name"], 'meta.json')
            meta = json.load(open(mp))
            meta.setdefault("rerun", []).append({"at": time.strftime('%Y-%m-%dT%H:%M:%SZ', time.gmtime()), **{k: r[k] for k in r if k != "name"}})
            meta["rerun"] = meta["rerun"][-3:]
            if r.get("applies"):
                meta["caught_by_latest"] = ["%s %s" % (c, r["tier"]) for c in r["caught_by"]]
            json.dump(meta, open(mp, 'w'), indent=1)
    out.sort(key=lambda r: r["name"])
    mpath = os.path.join(SEEDED, 'MATRIX.json')
    prev = json.load(open(mpath)) if os.path.exists(mpath) else {}
    for r in out:
        prev[r["name"]] = {"property": r["property"], "applies_to_head": r.get("applies"), "repo_head": r.get("repo_head"), "tier": r["tier"],
                           "caught_by": r["caught_by"], "ran": sorted(r["results"]), "note": r.get("note")}
    json.dump(prev, open(mpath, 'w'), indent=1, sort_keys=True)
    missed = [r["name"] for r in out if r.get("applies") and not r["caught_by"]]
    print('missed:', missed)
    print('not applicable to HEAD:', [r["name"] for r in out if not r.get("applies")])


main()

#!/venv/bin/python
"""Rewrite the block between the SEEDED-TABLE markers of DESIGN.md from seeded/MATRIX.json and the seeded meta files."""
import json, os, re
V = os.path.dirname(os.path.dirname(os.path.abspath(__file__)))
M = json.load(open(os.path.join(V, 'seeded', 'MATRIX.json')))
rows = []
for name in sorted(M):
    m = M[name]
    meta = json.load(open(os.path.join(V, 'seeded', name, 'meta.json')))
    notes = meta.get('needs_to_manifest', '')
    title = notes.strip().splitlines()[0].lstrip('# ').strip() if notes.strip() else ''
    title = re.sub(r'^(Mutation\s+)?C\d\d[ _]?(mutation\s*)?\(?[abAB]\)?\s*[-—:]*\s*', '', title)[:110].replace('|', '/')
    first = [r for r in meta.get('ran', []) if r.get('violation_lines')]
    caught_first = meta.get('caught_by') or []
    now = ', '.join('%s %s' % (c, m['tier']) for c in m['caught_by']) if m.get('applies_to_head') else 'patch no longer applies'
    if meta.get('missed_before_strengthening'):
        hist = 'missed when first tried, caught after the check was strengthened'
    elif caught_first and name[-1] in 'ab':
        hist = 'caught when first seeded'
    elif caught_first:
        # waves 2 and 3 were tried against the checks before being stored; the prose above lists what was strengthened
        hist = 'caught when stored (see the list above for what was strengthened beforehand)'
    else:
        hist = 'missed when first seeded, caught after the check was strengthened' if m['caught_by'] else 'MISSED'
    rows.append('| %s | %s | %s | %s |' % (name, title, now or '**missed**', hist))
block = ['<!-- SEEDED-TABLE-BEGIN -->', '| seeded change | what it does (first line of its notes) | caught by (current tree) | history |', '|---|---|---|---|'] + rows + ['<!-- SEEDED-TABLE-END -->']
p = os.path.join(V, 'DESIGN.md')
s = open(p).read()
if '<!-- SEEDED-TABLE-BEGIN -->' in s:
    s = re.sub(r'<!-- SEEDED-TABLE-BEGIN -->.*?<!-- SEEDED-TABLE-END -->', '\n'.join(block).replace('\\', '\\\\'), s, flags=re.S)
else:
    s += '\n' + '\n'.join(block) + '\n'
open(p, 'w').write(s)
print(len(rows), 'rows')

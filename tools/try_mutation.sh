#!/bin/sh
# usage: tools/try_mutation.sh <patch.diff> <ID> [tier] [more IDs...]  -- applies the patch to /repo, runs checks, reverts.
P="$1"; shift
cd /repo || exit 2
if [ -n "$(git status --porcelain --untracked-files=no)" ]; then echo "repo not clean"; exit 2; fi
if ! git apply --check "$P" 2>/dev/null; then
  if git apply --3way "$P" 2>/dev/null && [ -z "$(git diff --name-only --diff-filter=U)" ]; then git reset -q; echo "(applied with 3way)"; else echo "PATCH DOES NOT APPLY: $P"; git reset -q; git checkout HEAD -- . ; exit 3; fi
else
  git apply "$P"
fi
cd /verif
TIER=quick
for a in "$@"; do
  case "$a" in quick|thorough) TIER=$a;; esac
done
for id in "$@"; do
  case "$id" in quick|thorough) continue;; esac
  out=$(./check "$id" $TIER 2>&1); rc=$?
  echo "== $id $TIER rc=$rc: $(echo "$out" | grep -c '^VIOLATION') violation lines; $(echo "$out" | grep -m2 'violated\|INCONCLUSIVE' | cut -c1-220)"
done
git -C /repo checkout -- .
git -C /repo status --porcelain --untracked-files=no

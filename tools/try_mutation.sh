#!/bin/sh
# usage: tools/try_mutation.sh <patch.diff> <ID> [tier] [more IDs...]
# Applies the patch in a scratch worktree of /repo HEAD (never in /repo itself, so that other running checks are not
# disturbed), runs the checks against it (PV_REPO), removes the worktree. Evidence / replays go to scratch directories.
P="$1"; shift
WT=$(mktemp -d /tmp/trywt_XXXXXX); rmdir "$WT"
git -C /repo worktree add --detach "$WT" HEAD -q || exit 2
cleanup() { git -C /repo worktree remove --force "$WT" 2>/dev/null; rm -rf "$WT.ev" "$WT.rp"; }
trap cleanup EXIT
cd "$WT" || exit 2
if ! git apply --check "$P" 2>/dev/null; then
  if git apply --3way "$P" 2>/dev/null && [ -z "$(git diff --name-only --diff-filter=U)" ]; then git reset -q; echo "(applied with 3way)"; else echo "PATCH DOES NOT APPLY: $P"; exit 3; fi
else
  git apply "$P"
fi
cd /verif
TIER=quick
for a in "$@"; do
  case "$a" in quick|thorough) TIER=$a;; esac
done
for id in "$@"; do
  case "$id" in quick|thorough) continue;; esac
  out=$(PV_REPO="$WT" PV_EVIDENCE_DIR="$WT.ev" PV_REPLAY_DIR="$WT.rp" ./check "$id" $TIER 2>&1); rc=$?
  echo "== $id $TIER rc=$rc: $(echo "$out" | grep -c '^VIOLATION') violation lines; $(echo "$out" | grep -m2 'violated\|INCONCLUSIVE' | cut -c1-220)"
done

#!/venv/bin/python
"""Run the repository's pinned baseline (guard OFF) and compare with BASELINE.json stable_pass.
Exit 0 iff every stable test still passes."""
import json, os, subprocess, sys, tempfile, xml.etree.ElementTree as ET

class _Done:
    def __init__(self, out):
        self.stdout = out


def run_pytest(cmd, env, junit):
    """pytest sometimes hangs at interpreter exit (a non-daemon agent thread left by a test) after having written its
    report: once the junit file has been there for 40 s the process is killed"""
    import time
    out = tempfile.TemporaryFile(mode='w+')
    pr = subprocess.Popen(cmd, cwd='/repo', env=env, stdout=out, stderr=subprocess.STDOUT, text=True)
    seen = None
    while pr.poll() is None:
        time.sleep(2)
        if os.path.exists(junit) and os.path.getsize(junit) > 0:
            seen = seen or time.time()
            if time.time() - seen > 40:
                pr.kill()
                pr.wait()
                break
    out.seek(0)
    return _Done(out.read() or 'no output')


def main():
    base = json.load(open('/root/.vp/BASELINE.json'))
    stable = set(base['stable_pass'])
    fd, path = tempfile.mkstemp(suffix='.junit.xml'); os.close(fd); os.unlink(path)
    env = dict(os.environ)
    for k in ('PYDCOP_VERIF',):
        env.pop(k, None)
    cmd = ['/venv/bin/python', '-m', 'pytest', '-ra', '-q', '-p', 'no:cacheprovider', '--timeout=900',
           '--continue-on-collection-errors', '--junitxml=' + path]
    p = run_pytest(cmd, env, path)
    passed = set()
    root = ET.parse(path).getroot()
    for tc in root.iter('testcase'):
        if any(ch.tag in ('failure', 'error', 'skipped') for ch in tc):
            continue
        passed.add('%s::%s' % (tc.get('classname'), tc.get('name')))
    os.unlink(path)
    missing = sorted(stable - passed)
    # port contention (tests binding fixed ports while other pytest runs are alive) makes the HTTP tests
    # error out; re-run the files of missing tests up to 3 times before calling them missing
    for attempt in range(3):
        if not missing:
            break
        files = sorted({'tests/' + '/'.join(m.split('::')[0].split('.')[1:3]) + '.py' for m in missing
                        if not m.startswith('::')})
        files = [f for f in files if os.path.exists(os.path.join('/repo', f))]
        if not files:
            break
        fd, path2 = tempfile.mkstemp(suffix='.junit.xml'); os.close(fd)
        os.unlink(path2)
        run_pytest(['/venv/bin/python', '-m', 'pytest', '-q', '-p', 'no:cacheprovider', '--timeout=900',
                    '--junitxml=' + path2] + files, env, path2)
        for tc in ET.parse(path2).getroot().iter('testcase'):
            if not any(ch.tag in ('failure', 'error', 'skipped') for ch in tc):
                passed.add('%s::%s' % (tc.get('classname'), tc.get('name')))
        os.unlink(path2)
        missing = sorted(stable - passed)
    print('baseline: %d passed, %d stable, %d stable missing, %d newly passing' % (
        len(passed), len(stable), len(missing), len(passed - stable)))
    for m in missing[:50]:
        print('  MISSING', m)
    if '-v' in sys.argv:
        for m in sorted(passed - stable):
            print('  NEW', m)
    print(p.stdout.strip().splitlines()[-1])
    return 1 if missing else 0

if __name__ == '__main__':
    sys.exit(main())
